//! hx — scenario runner.
//!   hx list <PROP> <quick|thorough>              scenario names, one per line
//!   hx run <scenario> <seed> <out.json>          symbolic exploration (sym build) and report
//!   hx concrete <scenario> <seed> <in.json> <out.json>
//!        concrete executions (either build): in.json = [{"id":..,"assignment":{var:"value"}}..];
//!        writes per run the event log and the obligations evaluated concretely
mod hist;
mod mon;
mod oracle;
mod props;
mod spec;
mod sx;
mod tpl;
mod world;

use serde_json::{json, Value};
use std::collections::BTreeMap;
use symrt::{Mode, Opts, Report, Verdict};

#[derive(Clone, Copy, PartialEq, Eq, Debug)]
pub enum Tier {
    Quick,
    Thorough,
}

pub struct Scenario {
    pub name: String,
    pub prop: &'static str,
    pub tier: Tier, // Quick scenarios also run in thorough
    pub desc: String,
    pub max_paths: u64,
    pub max_secs: u64,
    pub run: Box<dyn Fn()>,
}

fn assignment_json(a: &BTreeMap<String, u128>) -> Value {
    Value::Object(a.iter().map(|(k, v)| (k.clone(), Value::String(v.to_string()))).collect())
}

fn report_json(sc: &Scenario, seed: u64, rep: &Report, wall_ms: u128) -> Value {
    let mut by_label: BTreeMap<String, BTreeMap<&'static str, u64>> = BTreeMap::new();
    let mut refuted = vec![];
    let mut unknown = vec![];
    for o in &rep.obligations {
        let k = match o.verdict {
            Verdict::Proved => "proved",
            Verdict::ConcreteTrue => "concrete_true",
            Verdict::Refuted => "refuted",
            Verdict::ConcreteFalse => "concrete_false",
            Verdict::Unknown => "unknown",
        };
        *by_label.entry(o.label.clone()).or_default().entry(k).or_insert(0) += 1;
        if matches!(o.verdict, Verdict::Refuted | Verdict::ConcreteFalse) && refuted.len() < 40 {
            refuted.push(json!({"label": o.label, "detail": o.detail, "path": o.path, "assignment": assignment_json(&o.assignment)}));
        }
        if o.verdict == Verdict::Unknown && unknown.len() < 40 {
            unknown.push(json!({"label": o.label, "detail": o.detail, "path": o.path}));
        }
    }
    let n = |k: &str| -> u64 { by_label.values().map(|m| *m.get(k).unwrap_or(&0)).sum() };
    let paths: Vec<Value> = rep
        .path_records
        .iter()
        .map(|p| json!({"id": p.id, "ended": p.ended, "assignment": assignment_json(&p.assignment), "events": p.events, "decisions": p.decisions.len()}))
        .collect();
    let vars: BTreeMap<String, Value> = rep.vars.iter().map(|(k, (lo, hi))| (k.clone(), json!([lo.to_string(), hi.to_string()]))).collect();
    json!({
        "scenario": sc.name, "prop": sc.prop, "desc": sc.desc, "seed": seed,
        "paths": rep.paths, "infeasible": rep.infeasible, "diverged": rep.diverged, "aborted": rep.aborted,
        "decisions": rep.decisions, "interval_decided": rep.interval_decided, "search_hits": rep.search_hits, "search_evals": rep.search_evals,
        "queries": rep.queries, "solver_ms": rep.solver_ms as u64, "wall_ms": wall_ms as u64,
        "unknown_feasibility": rep.unknown_feasibility, "path_cap_hit": rep.path_cap_hit, "time_cap_hit": rep.time_cap_hit,
        "solver_errors": rep.solver_errors, "restarts_skipped": rep.restarts_skipped,
        "obligations": rep.obligations.len(), "proved": n("proved"), "concrete_true": n("concrete_true"),
        "refuted_n": n("refuted") + n("concrete_false"), "unknown_n": n("unknown"),
        "by_label": by_label, "refuted": refuted, "unknown": unknown,
        "vars": vars, "path_records": paths,
        "functions": world::calls_snapshot(),
    })
}

fn find(name: &str, seed: u64) -> Scenario {
    props::all(seed).into_iter().find(|s| s.name == name).unwrap_or_else(|| {
        eprintln!("unknown scenario {}", name);
        std::process::exit(3)
    })
}

fn parse_assignment(v: &Value) -> BTreeMap<String, u128> {
    let mut m = BTreeMap::new();
    if let Some(o) = v.as_object() {
        for (k, x) in o {
            if let Some(s) = x.as_str() {
                m.insert(k.clone(), s.parse::<u128>().expect("assignment value"));
            }
        }
    }
    m
}

fn main() {
    let args: Vec<String> = std::env::args().collect();
    if args.len() < 2 {
        eprintln!("usage: hx list|run|concrete ...");
        std::process::exit(3);
    }
    match args[1].as_str() {
        "list" => {
            let prop = &args[2];
            let tier = if args.get(3).map(|s| s.as_str()) == Some("thorough") { Tier::Thorough } else { Tier::Quick };
            for s in props::all(0) {
                if (prop == "ALL" || s.prop == prop) && (tier == Tier::Thorough || s.tier == Tier::Quick) {
                    println!("{}", s.name);
                }
            }
        }
        "run" => {
            if !sx::SYM_BUILD {
                eprintln!("`run` needs the symbolic build");
                std::process::exit(3);
            }
            let seed: u64 = args[3].parse().unwrap();
            let sc = find(&args[2], seed);
            let t0 = std::time::Instant::now();
            let scale: u64 = std::env::var("SYMX_TIME_SCALE").ok().and_then(|s| s.parse().ok()).unwrap_or(1);
            let envu = |k: &str, d: u64| -> u64 { std::env::var(k).ok().and_then(|s| s.parse().ok()).unwrap_or(d) };
            let dflt = Opts::default();
            let opts = Opts {
                max_paths: sc.max_paths,
                max_secs: (sc.max_secs * scale).min(envu("SYMX_MAX_SECS", u64::MAX)),
                mode: Mode::Sym,
                feas_timeout_ms: envu("SYMX_FEAS_MS", dflt.feas_timeout_ms),
                feas_retry_ms: envu("SYMX_FEAS_RETRY_MS", dflt.feas_retry_ms),
                prove_timeout_ms: envu("SYMX_PROVE_MS", dflt.prove_timeout_ms),
                prove_retry_ms: envu("SYMX_PROVE_RETRY_MS", dflt.prove_retry_ms),
                ..Default::default()
            };
            let rep = symrt::explore(|| (sc.run)(), opts);
            let j = report_json(&sc, seed, &rep, t0.elapsed().as_millis());
            std::fs::write(&args[4], serde_json::to_string(&j).unwrap()).unwrap();
        }
        "concrete" => {
            let seed: u64 = args[3].parse().unwrap();
            let sc = find(&args[2], seed);
            let input: Value = serde_json::from_str(&std::fs::read_to_string(&args[4]).unwrap()).unwrap();
            let mut out = vec![];
            for item in input.as_array().unwrap() {
                let a = parse_assignment(&item["assignment"]);
                let opts = Opts { max_paths: 1, max_secs: 600, mode: Mode::Concrete, assignment: a, ..Default::default() };
                let rep = symrt::explore(|| (sc.run)(), opts);
                let p = rep.path_records.first().cloned().unwrap_or_default();
                let obs: Vec<Value> = rep
                    .obligations
                    .iter()
                    .map(|o| json!({"label": o.label, "detail": o.detail, "ok": o.verdict == Verdict::ConcreteTrue}))
                    .collect();
                out.push(json!({"id": item["id"], "ended": p.ended, "events": p.events, "obligations": obs, "aborted": rep.aborted}));
            }
            std::fs::write(&args[5], serde_json::to_string(&Value::Array(out)).unwrap()).unwrap();
        }
        _ => {
            eprintln!("unknown command");
            std::process::exit(3);
        }
    }
}
