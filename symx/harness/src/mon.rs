//! Shared obligation helpers and cross-cutting monitors.
use crate::sx::{self, c, s, si, Cond, SInt};
use crate::world::*;
use cosmwasm_std::Uint128;
use margined_perp::margined_engine::Position;
use margined_perp::margined_vamm::StateResponse as VammState;
use std::collections::BTreeMap;
use symrt::prove_d;

/// floor(x*y/d)
pub fn k_of(x: Uint128, y: Uint128, d: u128) -> SInt {
    s(x).mul(s(y)).div_e(c(d))
}

pub fn fail(label: &str, detail: String) {
    prove_d(label, Cond::False, detail);
}
pub fn pass(label: &str) {
    prove_d(label, Cond::True, String::new());
}

pub fn vamm_state_eq(label: &str, a: &VammState, b: &VammState, detail: &str) {
    if a.open != b.open || a.next_funding_time != b.next_funding_time {
        fail(label, format!("{} open/next_funding_time changed", detail));
        return;
    }
    let cnd = Cond::all(vec![
        s(a.quote_asset_reserve).eq(s(b.quote_asset_reserve)),
        s(a.base_asset_reserve).eq(s(b.base_asset_reserve)),
        si(&a.total_position_size).eq(si(&b.total_position_size)),
        si(&a.funding_rate).eq(si(&b.funding_rate)),
    ]);
    prove_d(label, cnd, detail.to_string());
}

pub fn pos_eq_cond(a: &Position, b: &Position) -> Option<Cond> {
    if a.vamm != b.vamm || a.trader != b.trader || a.direction != b.direction || a.block_number != b.block_number {
        return None;
    }
    Some(Cond::all(vec![
        si(&a.size).eq(si(&b.size)),
        s(a.margin).eq(s(b.margin)),
        s(a.notional).eq(s(b.notional)),
        si(&a.last_updated_premium_fraction).eq(si(&b.last_updated_premium_fraction)),
    ]))
}

pub fn pos_unchanged(label: &str, a: &Option<Position>, b: &Option<Position>, detail: &str) {
    match (a, b) {
        (None, None) => pass(label),
        (Some(x), Some(y)) => match pos_eq_cond(x, y) {
            Some(cnd) => {
                prove_d(label, cnd, detail.to_string());
            }
            None => fail(label, format!("{}: direction/block/owner changed", detail)),
        },
        _ => fail(label, format!("{}: position created or removed", detail)),
    }
}

/// signed size of an optional position
pub fn size_of(p: &Option<Position>) -> SInt {
    match p {
        Some(p) => si(&p.size),
        None => SInt::zero(),
    }
}

// ------------------------------------------------------------------ semantic dump comparison
fn json_leaves(v: &serde_json::Value, path: String, out: &mut Vec<(String, String)>) {
    match v {
        serde_json::Value::Object(m) => {
            for (k, x) in m {
                json_leaves(x, format!("{}.{}", path, k), out);
            }
        }
        serde_json::Value::Array(a) => {
            out.push((format!("{}.#len", path), a.len().to_string()));
            for (i, x) in a.iter().enumerate() {
                json_leaves(x, format!("{}[{}]", path, i), out);
            }
        }
        serde_json::Value::String(s) => out.push((path, s.clone())),
        other => out.push((path, other.to_string())),
    }
}

/// value equality of two raw storage values: bytes, else JSON leaves with numeric strings compared
/// by the solver. Returns None if structurally different, else the conjunction to prove.
fn value_eq(a: &[u8], b: &[u8]) -> Option<Vec<Cond>> {
    if a == b {
        return Some(vec![]);
    }
    let ja: serde_json::Value = serde_json::from_slice(a).ok()?;
    let jb: serde_json::Value = serde_json::from_slice(b).ok()?;
    let (mut la, mut lb) = (vec![], vec![]);
    json_leaves(&ja, String::new(), &mut la);
    json_leaves(&jb, String::new(), &mut lb);
    if la.len() != lb.len() {
        return None;
    }
    let mut conds = vec![];
    for ((pa, va), (pb, vb)) in la.iter().zip(lb.iter()) {
        if pa != pb {
            return None;
        }
        if va == vb {
            continue;
        }
        match (sx::parse_num(va), sx::parse_num(vb)) {
            (Some(x), Some(y)) => conds.push(x.eq(y)),
            _ => return None,
        }
    }
    Some(conds)
}

pub type Dump = BTreeMap<String, Vec<(Vec<u8>, Vec<u8>)>>;

/// all raw storage identical (semantically) between two dumps
pub fn dump_unchanged(label: &str, a: &Dump, b: &Dump, detail: &str) {
    let mut conds = vec![];
    for (name, ra) in a {
        let rb = match b.get(name) {
            Some(r) => r,
            None => {
                fail(label, format!("{}: contract {} missing", detail, name));
                return;
            }
        };
        if ra.len() != rb.len() {
            fail(label, format!("{}: {} key count {} -> {}", detail, name, ra.len(), rb.len()));
            return;
        }
        for ((ka, va), (kb, vb)) in ra.iter().zip(rb.iter()) {
            if ka != kb {
                fail(label, format!("{}: {} key set changed", detail, name));
                return;
            }
            match value_eq(va, vb) {
                Some(mut cs) => conds.append(&mut cs),
                None => {
                    fail(label, format!("{}: {} value under key {} changed", detail, name, String::from_utf8_lossy(ka)));
                    return;
                }
            }
        }
    }
    prove_d(label, Cond::all(conds), detail.to_string());
}

pub fn balances_unchanged(label: &str, a: &BTreeMap<String, Uint128>, b: &BTreeMap<String, Uint128>, detail: &str) {
    let mut conds = vec![];
    for (k, va) in a {
        conds.push(s(*va).eq(s(b[k])));
    }
    prove_d(label, Cond::all(conds), detail.to_string());
}

// ------------------------------------------------------------------ C01 step obligations
/// obligations of C01 for one vAMM transaction: k never decreases, base + net position = initial
/// base reserve, a failed swap changes nothing
pub fn c01_step(pre: &VammState, post: &VammState, ok: bool, y0: Uint128, d: u128, what: &str) {
    let k0 = k_of(pre.quote_asset_reserve, pre.base_asset_reserve, d);
    let k1 = k_of(post.quote_asset_reserve, post.base_asset_reserve, d);
    prove_d("C01/k-nondecreasing", k1.ge(k0), what.to_string());
    prove_d(
        "C01/base+net=initial",
        s(post.base_asset_reserve).add(si(&post.total_position_size)).eq(s(y0)),
        what.to_string(),
    );
    if !ok {
        vamm_state_eq("C01/failed-swap-changes-nothing", pre, post, what);
    }
}
