//! Bridge between `cosmwasm_std::Uint128` and the symbolic runtime.
//! feature `sym`: Uint128 carries `symrt::SymU128` (patched cosmwasm-std).
//! feature `real`: the unmodified cosmwasm-std; symrt runs in concrete mode only.
use cosmwasm_std::Uint128;
pub use symrt::{Cond, SInt, SymU128, X};

#[cfg(feature = "sym")]
pub fn u(x: X) -> Uint128 {
    Uint128::sym(x)
}
#[cfg(feature = "sym")]
pub fn x(u: Uint128) -> X {
    u.raw()
}
#[cfg(feature = "real")]
pub fn u(x: X) -> Uint128 {
    Uint128::new(x.as_conc())
}
#[cfg(feature = "real")]
pub fn x(u: Uint128) -> X {
    SymU128::C(u.u128())
}

pub const SYM_BUILD: bool = cfg!(feature = "sym");

/// symbolic variable of type Uint128 in [lo, hi]
pub fn var(name: &str, lo: u128, hi: u128, seed: u128) -> Uint128 {
    u(symrt::fresh(name, lo, hi, seed))
}
/// spec-side view of a Uint128
pub fn s(v: Uint128) -> SInt {
    SInt::u(x(v))
}
pub fn si(v: &margined_common::integer::Integer) -> SInt {
    if v.negative {
        s(v.value).neg()
    } else {
        s(v.value)
    }
}
pub fn c(v: u128) -> SInt {
    SInt::c(v)
}
pub fn is_sym(v: Uint128) -> bool {
    x(v).is_sym()
}

/// parse a decimal (optionally signed) string produced by Uint128/Integer Display into a spec term;
/// handle-zone numbers map back to their node
pub fn parse_num(txt: &str) -> Option<SInt> {
    let (neg, d) = match txt.strip_prefix('-') {
        Some(r) => (true, r),
        None => (false, txt),
    };
    if d.is_empty() || !d.bytes().all(|b| b.is_ascii_digit()) {
        return None;
    }
    let v = match d.parse::<u128>() {
        Ok(v) => SInt::u(SymU128::from_u128(v)),
        Err(_) => SInt::big(symrt::Big::parse(d)?),
    };
    Some(if neg { v.neg() } else { v })
}

/// normalise an error / event text so that the symbolic and the real build can be compared:
/// digit runs -> '#', shim debug wrappers removed
pub fn norm(sx: &str) -> String {
    let mut out = String::new();
    let mut in_digits = false;
    for ch in sx.chars() {
        if ch.is_ascii_digit() {
            if !in_digits {
                out.push('#');
                in_digits = true;
            }
        } else {
            in_digits = false;
            out.push(ch);
        }
    }
    out.replace("C(#)", "#").replace("S(#)", "#").replace("-#", "#")
}
