//! Parameterised deployment of the five contracts (+ cw20 / mock or real price feed) on
//! cw-multi-test, with call logging and single-shot fault injection in every contract and in the
//! bank module, transaction helpers that treat a panic as a reverted transaction, and observers.
use crate::sx::{self, norm};
use anyhow::{anyhow, Result as AnyResult};
use cosmwasm_std::testing::{MockApi, MockStorage};
use cosmwasm_std::{
    to_binary, Addr, Api, BankMsg, BankQuery, Binary, BlockInfo, Coin, CustomQuery, Deps, DepsMut,
    Empty, Env, MessageInfo, Querier, Reply, Response, Storage, Uint128,
};
use cw20::{Cw20Coin, Cw20ExecuteMsg, Cw20QueryMsg, MinterResponse};
use cw_multi_test::{
    App, AppBuilder, AppResponse, Bank, BankKeeper, BankSudo, Contract, ContractWrapper,
    CosmosRouter, Executor, FailingDistribution, FailingStaking, Module, WasmKeeper,
};
use cw_multi_test::custom_handler::CachingCustomHandler;
use margined_common::integer::Integer;
use margined_perp::margined_engine::{
    ExecuteMsg as EngineExec, InstantiateMsg as EngineInit, PnlCalcOption, Position,
    PositionUnrealizedPnlResponse, QueryMsg as EngineQuery, Side, StateResponse as EngineState,
};
use margined_perp::margined_fee_pool::InstantiateMsg as FeePoolInit;
use margined_perp::margined_insurance_fund::{
    ExecuteMsg as InsExec, InstantiateMsg as InsInit, QueryMsg as InsQuery,
};
use margined_perp::margined_pricefeed::{
    ExecuteMsg as FeedExec, InstantiateMsg as FeedInit,
};
use margined_perp::margined_vamm::{
    CalcFeeResponse, ConfigResponse as VammConfig, Direction, ExecuteMsg as VammExec,
    InstantiateMsg as VammInit, QueryMsg as VammQuery, StateResponse as VammState,
};
use schemars::JsonSchema;
use serde::de::DeserializeOwned;
use serde::Serialize;
use std::cell::RefCell;
use std::collections::BTreeMap;

pub const OWNER: &str = "owner";
pub const ALICE: &str = "alice";
pub const BOB: &str = "bob";
pub const CAROL: &str = "carol";
pub const LIQ: &str = "liquidator";
pub const EVE: &str = "stranger";
pub const TRADERS: [&str; 3] = [ALICE, BOB, CAROL];
pub const DENOM: &str = "uwasm";
thread_local! {
    static DENOM_TL: std::cell::Cell<&'static str> = std::cell::Cell::new(DENOM);
}
/// the native collateral denom of the deployments built on this thread (default `uwasm`; the engine
/// also accepts `ujunox`)
pub fn denom() -> &'static str {
    DENOM_TL.with(|c| c.get())
}
pub fn set_denom(d: &'static str) {
    DENOM_TL.with(|c| c.set(d));
}

// ------------------------------------------------------------------------------------------
// call log + fault injection
// ------------------------------------------------------------------------------------------
thread_local! {
    static CALLS: RefCell<BTreeMap<String, u64>> = RefCell::new(BTreeMap::new());
    static TXCOUNT: RefCell<BTreeMap<String, u64>> = RefCell::new(BTreeMap::new());
    static FAULT: RefCell<Option<(String, u64)>> = RefCell::new(None);
    static FAULT_HIT: RefCell<bool> = RefCell::new(false);
    static TXLOG: RefCell<Vec<String>> = RefCell::new(vec![]);
    static MSGLOG: RefCell<Vec<(String, String)>> = RefCell::new(vec![]);
}

fn variant_of(msg: &[u8]) -> String {
    // {"open_position":{...}}  ->  open_position
    let s = String::from_utf8_lossy(msg);
    let mut it = s.split('"');
    it.next();
    it.next().unwrap_or("?").to_string()
}

/// record a call; Err when the armed fault matches this call
fn note(name: &str, entry: &str, variant: &str) -> AnyResult<()> {
    let key = format!("{}:{}:{}", name, entry, variant);
    CALLS.with(|c| *c.borrow_mut().entry(key.clone()).or_insert(0) += 1);
    if entry == "query" {
        return Ok(());
    }
    TXLOG.with(|l| l.borrow_mut().push(key));
    let site = format!("{}:{}", name, entry);
    let n = TXCOUNT.with(|c| {
        let mut c = c.borrow_mut();
        let e = c.entry(site.clone()).or_insert(0);
        *e += 1;
        *e
    });
    let hit = FAULT.with(|f| match &*f.borrow() {
        Some((s, k)) => *s == site && *k == n,
        None => false,
    });
    if hit {
        FAULT_HIT.with(|h| *h.borrow_mut() = true);
        return Err(anyhow!("injected fault at {} #{}", site, n));
    }
    Ok(())
}

pub fn calls_snapshot() -> BTreeMap<String, u64> {
    CALLS.with(|c| c.borrow().clone())
}
pub fn tx_sites() -> BTreeMap<String, u64> {
    TXCOUNT.with(|c| c.borrow().clone())
}
pub fn tx_log() -> Vec<String> {
    TXLOG.with(|c| c.borrow().clone())
}
pub fn arm_fault(site: &str, nth: u64) {
    FAULT.with(|f| *f.borrow_mut() = Some((site.to_string(), nth)));
    FAULT_HIT.with(|h| *h.borrow_mut() = false);
}
pub fn disarm_fault() -> bool {
    FAULT.with(|f| *f.borrow_mut() = None);
    FAULT_HIT.with(|h| *h.borrow())
}
fn tx_begin() {
    TXCOUNT.with(|c| c.borrow_mut().clear());
    TXLOG.with(|c| c.borrow_mut().clear());
    MSGLOG.with(|c| c.borrow_mut().clear());
}
/// execute messages (contract name, JSON) delivered during the last transaction, in order
pub fn msg_log() -> Vec<(String, String)> {
    MSGLOG.with(|c| c.borrow().clone())
}

struct Wrapped {
    name: &'static str,
    inner: Box<dyn Contract<Empty>>,
}
impl Contract<Empty> for Wrapped {
    fn execute(&self, deps: DepsMut, env: Env, info: MessageInfo, msg: Vec<u8>) -> AnyResult<Response> {
        MSGLOG.with(|l| l.borrow_mut().push((self.name.to_string(), String::from_utf8_lossy(&msg).to_string())));
        note(self.name, "execute", &variant_of(&msg))?;
        self.inner.execute(deps, env, info, msg)
    }
    fn instantiate(&self, deps: DepsMut, env: Env, info: MessageInfo, msg: Vec<u8>) -> AnyResult<Response> {
        self.inner.instantiate(deps, env, info, msg)
    }
    fn query(&self, deps: Deps, env: Env, msg: Vec<u8>) -> AnyResult<Binary> {
        note(self.name, "query", &variant_of(&msg))?;
        self.inner.query(deps, env, msg)
    }
    fn sudo(&self, deps: DepsMut, env: Env, msg: Vec<u8>) -> AnyResult<Response> {
        self.inner.sudo(deps, env, msg)
    }
    fn reply(&self, deps: DepsMut, env: Env, msg: Reply) -> AnyResult<Response> {
        note(self.name, "reply", &format!("id{}:{}", msg.id, if msg.result.is_ok() { "ok" } else { "err" }))?;
        self.inner.reply(deps, env, msg)
    }
    fn migrate(&self, deps: DepsMut, env: Env, msg: Vec<u8>) -> AnyResult<Response> {
        self.inner.migrate(deps, env, msg)
    }
}

pub struct FaultyBank(pub BankKeeper);
impl Module for FaultyBank {
    type ExecT = BankMsg;
    type QueryT = BankQuery;
    type SudoT = BankSudo;
    fn execute<ExecC, QueryC>(
        &self,
        api: &dyn Api,
        storage: &mut dyn Storage,
        router: &dyn CosmosRouter<ExecC = ExecC, QueryC = QueryC>,
        block: &BlockInfo,
        sender: Addr,
        msg: BankMsg,
    ) -> AnyResult<AppResponse>
    where
        ExecC: std::fmt::Debug + Clone + PartialEq + JsonSchema + DeserializeOwned + 'static,
        QueryC: CustomQuery + DeserializeOwned + 'static,
    {
        note("bank", "execute", "send")?;
        self.0.execute(api, storage, router, block, sender, msg)
    }
    fn sudo<ExecC, QueryC>(
        &self,
        api: &dyn Api,
        storage: &mut dyn Storage,
        router: &dyn CosmosRouter<ExecC = ExecC, QueryC = QueryC>,
        block: &BlockInfo,
        msg: BankSudo,
    ) -> AnyResult<AppResponse>
    where
        ExecC: std::fmt::Debug + Clone + PartialEq + JsonSchema + DeserializeOwned + 'static,
        QueryC: CustomQuery + DeserializeOwned + 'static,
    {
        self.0.sudo(api, storage, router, block, msg)
    }
    fn query(
        &self,
        api: &dyn Api,
        storage: &dyn Storage,
        querier: &dyn Querier,
        block: &BlockInfo,
        request: BankQuery,
    ) -> AnyResult<Binary> {
        self.0.query(api, storage, querier, block, request)
    }
}
impl Bank for FaultyBank {}

pub type MyApp = App<
    FaultyBank,
    MockApi,
    MockStorage,
    CachingCustomHandler<Empty, Empty>,
    WasmKeeper<Empty, Empty>,
    FailingStaking,
    FailingDistribution,
>;

fn wrap(name: &'static str, inner: Box<dyn Contract<Empty>>) -> Box<dyn Contract<Empty>> {
    Box::new(Wrapped { name, inner })
}
fn c_cw20() -> Box<dyn Contract<Empty>> {
    wrap(
        "cw20",
        Box::new(ContractWrapper::new_with_empty(
            cw20_base::contract::execute,
            cw20_base::contract::instantiate,
            cw20_base::contract::query,
        )),
    )
}
fn c_vamm() -> Box<dyn Contract<Empty>> {
    wrap(
        "vamm",
        Box::new(ContractWrapper::new_with_empty(
            margined_vamm::contract::execute,
            margined_vamm::contract::instantiate,
            margined_vamm::contract::query,
        )),
    )
}
fn c_ins() -> Box<dyn Contract<Empty>> {
    wrap(
        "insurance_fund",
        Box::new(ContractWrapper::new_with_empty(
            margined_insurance_fund::contract::execute,
            margined_insurance_fund::contract::instantiate,
            margined_insurance_fund::contract::query,
        )),
    )
}
fn c_feepool() -> Box<dyn Contract<Empty>> {
    wrap(
        "fee_pool",
        Box::new(ContractWrapper::new_with_empty(
            margined_fee_pool::contract::execute,
            margined_fee_pool::contract::instantiate,
            margined_fee_pool::contract::query,
        )),
    )
}
fn c_engine() -> Box<dyn Contract<Empty>> {
    wrap(
        "engine",
        Box::new(
            ContractWrapper::new_with_empty(
                margined_engine::contract::execute,
                margined_engine::contract::instantiate,
                margined_engine::contract::query,
            )
            .with_reply(margined_engine::contract::reply),
        ),
    )
}
fn c_feed_real() -> Box<dyn Contract<Empty>> {
    wrap(
        "pricefeed",
        Box::new(ContractWrapper::new_with_empty(
            margined_pricefeed::contract::execute,
            margined_pricefeed::contract::instantiate,
            margined_pricefeed::contract::query,
        )),
    )
}
fn c_feed_mock() -> Box<dyn Contract<Empty>> {
    wrap(
        "mock_pricefeed",
        Box::new(ContractWrapper::new_with_empty(
            mock_pricefeed::contract::execute,
            mock_pricefeed::contract::instantiate,
            mock_pricefeed::contract::query,
        )),
    )
}

// ------------------------------------------------------------------------------------------
// configuration
// ------------------------------------------------------------------------------------------
#[derive(Clone)]
pub struct Cfg {
    pub native: bool,
    pub decimals: u8,
    pub x0: Uint128, // quote reserve
    pub y0: Uint128, // base reserve
    pub toll: Uint128,
    pub spread: Uint128,
    pub fluct: Uint128,
    pub init_ratio: Uint128,
    pub maint_ratio: Uint128,
    pub liq_fee: Uint128,
    pub partial_ratio: Uint128,
    pub funding_period: u64,
    pub real_feed: bool,
    pub oracle_price: Uint128,
    pub n_vamms: usize,
    pub trader_funds: Uint128,
    pub ins_funds: Uint128,
    pub vamm_engine_is_owner: bool, // vAMM-only deployments: the "engine" is a plain account
}

pub fn pow10(d: u8) -> u128 {
    10u128.pow(d as u32)
}

impl Cfg {
    /// the repository fixtures' parameters, scaled to `decimals`
    pub fn base(native: bool, decimals: u8) -> Cfg {
        let d = pow10(decimals);
        Cfg {
            native,
            decimals,
            x0: Uint128::new(1_000 * d),
            y0: Uint128::new(100 * d),
            toll: Uint128::zero(),
            spread: Uint128::zero(),
            fluct: Uint128::zero(),
            init_ratio: Uint128::new(d / 20),
            maint_ratio: Uint128::new(d / 20),
            liq_fee: Uint128::new(d / 20),
            partial_ratio: Uint128::zero(),
            funding_period: 86_400,
            real_feed: false,
            oracle_price: Uint128::new(10 * d),
            n_vamms: 1,
            trader_funds: Uint128::new(5_000 * d),
            ins_funds: Uint128::new(5_000 * d),
            vamm_engine_is_owner: false,
        }
    }
    pub fn d(&self) -> u128 {
        pow10(self.decimals)
    }
}

#[derive(Clone, Debug)]
pub struct Tx {
    pub ok: bool,
    pub err: String,
    pub log: Vec<String>,
    /// (event type, key, value) of every attribute of a successful transaction
    pub attrs: Vec<(String, String, String)>,
    pub msgs: Vec<(String, String)>,
}
impl Tx {
    pub fn attr(&self, key: &str) -> Option<String> {
        self.attrs.iter().find(|(_, k, _)| k == key).map(|(_, _, v)| v.clone())
    }
    pub fn msgs_to(&self, contract: &str) -> Vec<serde_json::Value> {
        self.msgs.iter().filter(|(n, _)| n == contract).filter_map(|(_, m)| serde_json::from_str(m).ok()).collect()
    }
}
fn attrs_of(r: &AppResponse) -> Vec<(String, String, String)> {
    let mut v = vec![];
    for e in &r.events {
        for a in &e.attributes {
            v.push((e.ty.clone(), a.key.clone(), a.value.clone()));
        }
    }
    v
}

pub struct World {
    pub app: MyApp,
    pub cfg: Cfg,
    pub d: u128,
    pub engine: Addr,
    pub vamms: Vec<Addr>,
    pub ins: Addr,
    pub feepool: Addr,
    pub feed: Addr,
    pub token: Option<Addr>,
    pub step_no: usize,
    /// native deployments: collateral coins attached to the engine messages that need none
    /// (ClosePosition, Liquidate, PayFunding, WithdrawMargin)
    pub attach: Option<Uint128>,
    /// spot price of every vAMM at the end of the previous block (harness-side ledger, recorded
    /// whenever the harness starts a new block): the reference of the per-block price band
    pub last_spot: Vec<Option<Uint128>>,
    /// vAMM addresses registered with the insurance fund according to the harness's own record of
    /// the owner's successful AddVamm / RemoveVamm calls (not the fund's IsVamm answer)
    pub registered: std::collections::BTreeSet<String>,
    /// (toll, spread) ratios of each vAMM according to the harness's own record of what the
    /// deployment was instantiated with and of the owner's successful UpdateConfig calls (the fee
    /// oracles use this, not the vAMM's Config query)
    pub fee_ledger: std::collections::BTreeMap<String, (Uint128, Uint128)>,
    /// the latest price submitted to the price feed the vAMMs are CONFIGURED to read (harness
    /// record of its own successful submissions; not the vAMM's UnderlyingPrice answer)
    pub oracle_ledger: Option<Uint128>,
    /// a fee pool the engine was configured with earlier and that the owner has since replaced
    /// (tracked as account `fee_pool_old`: no longer a permitted recipient of anything)
    pub old_feepool: Option<Addr>,
}

pub fn addr(s: &str) -> Addr {
    Addr::unchecked(s)
}

impl World {
    /// Deploys everything. Returns Err(text) if any deployment step is rejected (a scenario with
    /// symbolic configuration treats that as "outside the configuration domain").
    pub fn deploy(cfg: Cfg) -> Result<World, String> {
        let d = cfg.d();
        let owner = addr(OWNER);
        let funded: Vec<&str> = vec![ALICE, BOB, CAROL, LIQ, EVE];
        let native = cfg.native;
        if native {
            assert!(cfg.decimals == 6, "native collateral uwasm has 6 decimals");
        }
        let tf = cfg.trader_funds;
        let inf = cfg.ins_funds;
        let mut app: MyApp = AppBuilder::new()
            .with_bank(FaultyBank(BankKeeper::new()))
            .with_custom(CachingCustomHandler::<Empty, Empty>::new())
            .build(|router, _, storage| {
                if native {
                    for a in funded.iter() {
                        router.bank.0.init_balance(storage, &addr(a), vec![Coin { denom: denom().into(), amount: tf }]).unwrap();
                    }
                    router
                        .bank
                        .0
                        .init_balance(storage, &addr("bank"), vec![Coin { denom: denom().into(), amount: inf }])
                        .unwrap();
                }
            });
        let e = |r: AnyResult<Addr>, what: &str| r.map_err(|e| format!("{}: {}", what, e.root_cause()));
        let ex = |r: AnyResult<AppResponse>, what: &str| r.map(|_| ()).map_err(|e| format!("{}: {}", what, e.root_cause()));

        let feepool_id = app.store_code(c_feepool());
        let engine_id = app.store_code(c_engine());
        let vamm_id = app.store_code(c_vamm());
        let ins_id = app.store_code(c_ins());
        let feed_id = if cfg.real_feed { app.store_code(c_feed_real()) } else { app.store_code(c_feed_mock()) };

        let feepool = e(app.instantiate_contract(feepool_id, owner.clone(), &FeePoolInit {}, &[], "fee_pool", None), "fee_pool")?;
        let token = if native {
            None
        } else {
            let id = app.store_code(c_cw20());
            let t = e(
                app.instantiate_contract(
                    id,
                    owner.clone(),
                    &cw20_base::msg::InstantiateMsg {
                        name: "USDC".into(),
                        symbol: "USDC".into(),
                        decimals: cfg.decimals,
                        initial_balances: funded.iter().map(|a| Cw20Coin { address: a.to_string(), amount: tf }).collect(),
                        mint: Some(MinterResponse { minter: OWNER.into(), cap: None }),
                        marketing: None,
                    },
                    &[],
                    "cw20",
                    None,
                ),
                "cw20",
            )?;
            Some(t)
        };
        let collateral = match &token {
            Some(t) => t.to_string(),
            None => denom().to_string(),
        };
        let (engine, ins) = if cfg.vamm_engine_is_owner {
            (owner.clone(), addr("insurance_fund"))
        } else {
            let engine = e(
                app.instantiate_contract(
                    engine_id,
                    owner.clone(),
                    &EngineInit {
                        pauser: OWNER.into(),
                        insurance_fund: "insurance_fund".into(),
                        fee_pool: feepool.to_string(),
                        eligible_collateral: collateral,
                        initial_margin_ratio: cfg.init_ratio,
                        maintenance_margin_ratio: cfg.maint_ratio,
                        liquidation_fee: cfg.liq_fee,
                    },
                    &[],
                    "engine",
                    None,
                ),
                "engine",
            )?;
            let ins = e(app.instantiate_contract(ins_id, owner.clone(), &InsInit { engine: engine.to_string() }, &[], "insurance_fund", None), "insurance_fund")?;
            // fund the insurance fund
            if native {
                ex(
                    app.execute(addr("bank"), cosmwasm_std::CosmosMsg::Bank(BankMsg::Send { to_address: ins.to_string(), amount: vec![Coin { denom: denom().into(), amount: inf }] })),
                    "fund insurance",
                )?;
            } else {
                ex(
                    app.execute_contract(owner.clone(), token.clone().unwrap(), &Cw20ExecuteMsg::Mint { recipient: ins.to_string(), amount: inf }, &[]),
                    "fund insurance",
                )?;
            }
            ex(
                app.execute_contract(
                    owner.clone(),
                    engine.clone(),
                    &EngineExec::UpdateConfig {
                        owner: None,
                        insurance_fund: Some(ins.to_string()),
                        fee_pool: None,
                        initial_margin_ratio: None,
                        maintenance_margin_ratio: None,
                        partial_liquidation_ratio: Some(cfg.partial_ratio),
                        liquidation_fee: None,
                    },
                    &[],
                ),
                "engine config",
            )?;
            (engine, ins)
        };
        let feed = if cfg.real_feed {
            e(app.instantiate_contract(feed_id, owner.clone(), &FeedInit { oracle_hub_contract: "oracle_hub0000".into() }, &[], "pricefeed", None), "pricefeed")?
        } else {
            e(
                app.instantiate_contract(feed_id, owner.clone(), &mock_pricefeed::contract::InstantiateMsg { oracle_hub_contract: "oracle_hub0000".into() }, &[], "pricefeed", None),
                "pricefeed",
            )?
        };
        let mut vamms = vec![];
        for i in 0..cfg.n_vamms {
            let v = e(
                app.instantiate_contract(
                    vamm_id,
                    owner.clone(),
                    &VammInit {
                        decimals: cfg.decimals,
                        quote_asset: "ETH".into(),
                        base_asset: "USD".into(),
                        quote_asset_reserve: cfg.x0,
                        base_asset_reserve: cfg.y0,
                        funding_period: cfg.funding_period,
                        toll_ratio: cfg.toll,
                        spread_ratio: cfg.spread,
                        fluctuation_limit_ratio: cfg.fluct,
                        pricefeed: feed.to_string(),
                        margin_engine: Some(engine.to_string()),
                        insurance_fund: Some(ins.to_string()),
                    },
                    &[],
                    format!("vamm{}", i),
                    None,
                ),
                "vamm",
            )?;
            ex(app.execute_contract(owner.clone(), v.clone(), &VammExec::SetOpen { open: true }, &[]), "vamm open")?;
            if !cfg.vamm_engine_is_owner {
                ex(app.execute_contract(owner.clone(), ins.clone(), &InsExec::AddVamm { vamm: v.to_string() }, &[]), "add vamm")?;
            }
            vamms.push(v);
        }
        if let Some(t) = &token {
            if !cfg.vamm_engine_is_owner {
                for a in funded.iter() {
                    ex(
                        app.execute_contract(
                            addr(a),
                            t.clone(),
                            &Cw20ExecuteMsg::IncreaseAllowance { spender: engine.to_string(), amount: Uint128::new(u128::MAX >> 8), expires: None },
                            &[],
                        ),
                        "allowance",
                    )?;
                }
            }
        }
        let mut w = World { app, cfg, d, engine, vamms, ins, feepool, feed, token, step_no: 0, attach: None, last_spot: vec![], registered: Default::default(), fee_ledger: Default::default(), oracle_ledger: None, old_feepool: None };
        w.registered = w.vamms.iter().map(|a| a.to_string()).collect();
        w.fee_ledger = w.vamms.iter().map(|a| (a.to_string(), (w.cfg.toll, w.cfg.spread))).collect();
        let now = w.app.block_info().time.seconds();
        let p = w.cfg.oracle_price;
        let t = w.set_oracle(p, now);
        if !t.ok {
            return Err(format!("oracle: {}", t.err));
        }
        Ok(w)
    }

    /// instantiate one more vAMM (own decimals) in the same app, opened, not registered
    pub fn instantiate_vamm(&mut self, decimals: u8) -> Addr {
        self.instantiate_vamm_with(decimals, true)
    }
    /// `with_engine = false`: the vAMM is deployed without any margin engine configured
    pub fn instantiate_vamm_with(&mut self, decimals: u8, with_engine: bool) -> Addr {
        self.instantiate_vamm_opts(decimals, with_engine, true)
    }
    /// `with_ins = false`: deployed without an insurance fund configured either
    pub fn instantiate_vamm_opts(&mut self, decimals: u8, with_engine: bool, with_ins: bool) -> Addr {
        let d = pow10(decimals);
        let id = self.app.store_code(c_vamm());
        let v = self
            .app
            .instantiate_contract(
                id,
                addr(OWNER),
                &VammInit {
                    decimals,
                    quote_asset: "ETH".into(),
                    base_asset: "USD".into(),
                    quote_asset_reserve: Uint128::new(1_000 * d),
                    base_asset_reserve: Uint128::new(100 * d),
                    funding_period: 86_400,
                    toll_ratio: Uint128::zero(),
                    spread_ratio: Uint128::zero(),
                    fluctuation_limit_ratio: Uint128::zero(),
                    pricefeed: self.feed.to_string(),
                    margin_engine: if with_engine { Some(self.engine.to_string()) } else { None },
                    insurance_fund: if with_ins { Some(self.ins.to_string()) } else { None },
                },
                &[],
                "vamm-extra",
                None,
            )
            .expect("extra vamm");
        self.app.execute_contract(addr(OWNER), v.clone(), &VammExec::SetOpen { open: true }, &[]).expect("open extra vamm");
        v
    }

    /// a second insurance-fund instance (same code, same engine) that is NOT the engine's fund
    pub fn instantiate_second_fund(&mut self) -> Addr {
        let id = self.app.store_code(c_ins());
        self.app.instantiate_contract(id, addr(OWNER), &InsInit { engine: self.engine.to_string() }, &[], "insurance_fund-2", None).expect("second insurance fund")
    }

    // ------------------------------------------------------------------ transactions
    pub fn exec<T: Serialize + std::fmt::Debug>(&mut self, who: &str, to: &Addr, msg: &T, funds: &[Coin]) -> Tx {
        tx_begin();
        let app = &mut self.app;
        let r = symrt::catch(|| app.execute_contract(addr(who), to.clone(), msg, funds));
        match r {
            Ok(Ok(resp)) => Tx { ok: true, err: String::new(), log: tx_log(), attrs: attrs_of(&resp), msgs: msg_log() },
            Ok(Err(e)) => Tx { ok: false, err: format!("{}", e.root_cause()), log: tx_log(), attrs: vec![], msgs: msg_log() },
            Err(p) => Tx { ok: false, err: p, log: tx_log(), attrs: vec![], msgs: msg_log() },
        }
    }
    fn funds(&self, f: Option<Uint128>) -> Vec<Coin> {
        match f {
            Some(a) => vec![Coin { denom: denom().into(), amount: a }],
            None => vec![],
        }
    }
    fn logtx(&mut self, what: &str, t: &Tx) {
        self.step_no += 1;
        symrt::log_event(format!("{}#{}:{}:{}", what, self.step_no, if t.ok { "ok" } else { "err" }, norm(&t.err)));
    }
    pub fn open(&mut self, who: &str, vi: usize, side: Side, margin: Uint128, lev: Uint128, limit: Uint128, funds: Option<Uint128>) -> Tx {
        let f = self.funds(funds);
        let (e, v) = (self.engine.clone(), self.vamms[vi].to_string());
        let t = self.exec(who, &e, &EngineExec::OpenPosition { vamm: v, side, margin_amount: margin, leverage: lev, base_asset_limit: limit }, &f);
        self.logtx("open", &t);
        t
    }
    pub fn close(&mut self, who: &str, vi: usize, limit: Uint128) -> Tx {
        let (e, v) = (self.engine.clone(), self.vamms[vi].to_string());
        let f = self.funds(if self.token.is_none() { self.attach } else { None });
        let t = self.exec(who, &e, &EngineExec::ClosePosition { vamm: v, quote_asset_limit: limit }, &f);
        self.logtx("close", &t);
        t
    }
    pub fn liquidate(&mut self, who: &str, vi: usize, trader: &str, limit: Uint128) -> Tx {
        let (e, v) = (self.engine.clone(), self.vamms[vi].to_string());
        let f = self.funds(if self.token.is_none() { self.attach } else { None });
        let t = self.exec(who, &e, &EngineExec::Liquidate { vamm: v, trader: trader.into(), quote_asset_limit: limit }, &f);
        self.logtx("liquidate", &t);
        t
    }
    pub fn pay_funding(&mut self, who: &str, vi: usize) -> Tx {
        let (e, v) = (self.engine.clone(), self.vamms[vi].to_string());
        let f = self.funds(if self.token.is_none() { self.attach } else { None });
        let t = self.exec(who, &e, &EngineExec::PayFunding { vamm: v }, &f);
        self.logtx("pay_funding", &t);
        t
    }
    pub fn deposit(&mut self, who: &str, vi: usize, amount: Uint128, funds: Option<Uint128>) -> Tx {
        let f = self.funds(funds);
        let (e, v) = (self.engine.clone(), self.vamms[vi].to_string());
        let t = self.exec(who, &e, &EngineExec::DepositMargin { vamm: v, amount }, &f);
        self.logtx("deposit", &t);
        t
    }
    pub fn withdraw(&mut self, who: &str, vi: usize, amount: Uint128) -> Tx {
        let (e, v) = (self.engine.clone(), self.vamms[vi].to_string());
        let f = self.funds(if self.token.is_none() { self.attach } else { None });
        let t = self.exec(who, &e, &EngineExec::WithdrawMargin { vamm: v, amount }, &f);
        self.logtx("withdraw", &t);
        t
    }
    pub fn engine_exec(&mut self, who: &str, msg: &EngineExec) -> Tx {
        let e = self.engine.clone();
        let t = self.exec(who, &e, msg, &[]);
        self.logtx("engine_exec", &t);
        t
    }
    pub fn vamm_exec(&mut self, who: &str, vi: usize, msg: &VammExec) -> Tx {
        let v = self.vamms[vi].clone();
        let t = self.exec(who, &v, msg, &[]);
        self.logtx("vamm_exec", &t);
        if t.ok {
            if let VammExec::UpdateConfig { toll_ratio, spread_ratio, .. } = msg {
                if let Some(e) = self.fee_ledger.get_mut(&v.to_string()) {
                    if let Some(x) = toll_ratio {
                        e.0 = *x;
                    }
                    if let Some(x) = spread_ratio {
                        e.1 = *x;
                    }
                }
            }
        }
        t
    }
    /// (toll, spread) of vAMM `vi` by the harness's ledger (the Config query for a vAMM that was
    /// not deployed by `World::new`)
    pub fn fees_of(&self, vi: usize) -> (Uint128, Uint128) {
        match self.fee_ledger.get(&self.vamms[vi].to_string()) {
            Some(e) => *e,
            None => {
                let c = self.vamm_config(vi);
                (c.toll_ratio, c.spread_ratio)
            }
        }
    }
    pub fn ins_exec(&mut self, who: &str, msg: &InsExec) -> Tx {
        let a = self.ins.clone();
        let t = self.exec(who, &a, msg, &[]);
        if t.ok {
            match msg {
                InsExec::AddVamm { vamm } => {
                    self.registered.insert(vamm.clone());
                }
                InsExec::RemoveVamm { vamm } => {
                    self.registered.remove(vamm);
                }
                _ => {}
            }
        }
        self.logtx("ins_exec", &t);
        t
    }
    pub fn set_oracle(&mut self, price: Uint128, timestamp: u64) -> Tx {
        let f = self.feed.clone();
        let t = if self.cfg.real_feed {
            self.exec(OWNER, &f, &FeedExec::AppendPrice { key: "USD".into(), price, timestamp }, &[])
        } else {
            self.exec(OWNER, &f, &mock_pricefeed::contract::ExecuteMsg::AppendPrice { key: "USD".into(), price, timestamp }, &[])
        };
        self.logtx("set_oracle", &t);
        if t.ok {
            self.oracle_ledger = Some(price);
        }
        t
    }
    /// the owner deploys a second fee pool and re-points the engine at it; from then on `fee_pool`
    /// names the new one (by the harness's record of the owner's successful call)
    pub fn switch_fee_pool(&mut self) -> bool {
        let id = self.app.store_code(c_feepool());
        let f = self.app.instantiate_contract(id, addr(OWNER), &FeePoolInit {}, &[], "fee_pool-2", None).expect("second fee pool");
        let ok = self.update_engine_fee_pool(f.to_string()).ok;
        if ok {
            self.old_feepool = Some(self.feepool.clone());
            self.feepool = f;
        }
        ok
    }
    fn update_engine_fee_pool(&mut self, fp: String) -> Tx {
        self.engine_exec(OWNER, &EngineExec::UpdateConfig { owner: None, insurance_fund: None, fee_pool: Some(fp), initial_margin_ratio: None, maintenance_margin_ratio: None, partial_liquidation_ratio: None, liquidation_fee: None })
    }
    /// the owner deploys a second (mock) price feed reporting `price` and re-points every vAMM at
    /// it; the old feed keeps its last value. Later `set_oracle` calls go to the new feed
    pub fn switch_feed(&mut self, price: Uint128) -> bool {
        let id = self.app.store_code(c_feed_mock());
        let f = self.app.instantiate_contract(id, addr(OWNER), &mock_pricefeed::contract::InstantiateMsg { oracle_hub_contract: "oracle_hub0000".into() }, &[], "pricefeed-2", None).expect("second price feed");
        self.feed = f.clone();
        self.cfg.real_feed = false;
        let now = self.now();
        let mut ok = self.set_oracle(price, now).ok;
        for vi in 0..self.vamms.len() {
            let m = VammExec::UpdateConfig { base_asset_holding_cap: None, open_interest_notional_cap: None, toll_ratio: None, spread_ratio: None, fluctuation_limit_ratio: None, margin_engine: None, insurance_fund: None, pricefeed: Some(f.to_string()), spot_price_twap_interval: None };
            ok &= self.vamm_exec(OWNER, vi, &m).ok;
        }
        ok
    }
    pub fn update_engine(&mut self, init: Option<Uint128>, maint: Option<Uint128>, partial: Option<Uint128>, liq_fee: Option<Uint128>) -> Tx {
        self.engine_exec(
            OWNER,
            &EngineExec::UpdateConfig {
                owner: None,
                insurance_fund: None,
                fee_pool: None,
                initial_margin_ratio: init,
                maintenance_margin_ratio: maint,
                partial_liquidation_ratio: partial,
                liquidation_fee: liq_fee,
            },
        )
    }
    #[allow(clippy::too_many_arguments)]
    pub fn update_vamm(&mut self, vi: usize, holding_cap: Option<Uint128>, oi_cap: Option<Uint128>, toll: Option<Uint128>, spread: Option<Uint128>, fluct: Option<Uint128>, twap: Option<u64>) -> Tx {
        self.vamm_exec(
            OWNER,
            vi,
            &VammExec::UpdateConfig {
                base_asset_holding_cap: holding_cap,
                open_interest_notional_cap: oi_cap,
                toll_ratio: toll,
                spread_ratio: spread,
                fluctuation_limit_ratio: fluct,
                margin_engine: None,
                insurance_fund: None,
                pricefeed: None,
                spot_price_twap_interval: twap,
            },
        )
    }
    /// direct collateral transfer between plain accounts (environment action)
    pub fn transfer(&mut self, from: &str, to: &Addr, amount: Uint128) -> Tx {
        tx_begin();
        let t = match &self.token {
            Some(tok) => {
                let tok = tok.clone();
                self.exec(from, &tok, &Cw20ExecuteMsg::Transfer { recipient: to.to_string(), amount }, &[])
            }
            None => {
                let app = &mut self.app;
                let to = to.to_string();
                let r = symrt::catch(|| app.execute(addr(from), cosmwasm_std::CosmosMsg::Bank(BankMsg::Send { to_address: to, amount: vec![Coin { denom: denom().into(), amount }] })));
                match r {
                    Ok(Ok(_)) => Tx { ok: true, err: String::new(), log: vec![], attrs: vec![], msgs: vec![] },
                    Ok(Err(e)) => Tx { ok: false, err: format!("{}", e.root_cause()), log: vec![], attrs: vec![], msgs: vec![] },
                    Err(p) => Tx { ok: false, err: p, log: vec![], attrs: vec![], msgs: vec![] },
                }
            }
        };
        self.logtx("transfer", &t);
        t
    }
    fn note_block_end(&mut self) {
        self.last_spot = (0..self.vamms.len()).map(|vi| self.spot_price(vi).ok()).collect();
    }
    pub fn next_block(&mut self, dt: u64) {
        self.note_block_end();
        self.app.update_block(|b| {
            b.time = b.time.plus_seconds(dt);
            b.height += 1;
        });
    }
    /// next block `dt` whole seconds later plus `nanos` nanoseconds (block times are not aligned to
    /// whole seconds on a real chain)
    pub fn next_block_ns(&mut self, dt: u64, nanos: u64) {
        self.note_block_end();
        self.app.update_block(|b| {
            b.time = b.time.plus_seconds(dt).plus_nanos(nanos);
            b.height += 1;
        });
    }
    pub fn advance_time(&mut self, dt: u64) {
        self.app.update_block(|b| {
            b.time = b.time.plus_seconds(dt);
        });
    }
    pub fn now(&self) -> u64 {
        self.app.block_info().time.seconds()
    }
    pub fn height(&self) -> u64 {
        self.app.block_info().height
    }

    // ------------------------------------------------------------------ observers
    pub fn q<T: DeserializeOwned, M: Serialize>(&self, to: &Addr, msg: &M) -> Result<T, String> {
        let app = &self.app;
        match symrt::catch(|| app.wrap().query_wasm_smart::<T>(to.clone(), msg)) {
            Ok(Ok(v)) => Ok(v),
            Ok(Err(e)) => Err(format!("{}", e)),
            Err(p) => Err(p),
        }
    }
    /// a smart query given and answered as raw JSON bytes (any message shape)
    pub fn q_raw(&self, to: &Addr, msg_json: Vec<u8>) -> Result<Vec<u8>, String> {
        use cosmwasm_std::{ContractResult, Empty, Querier, QueryRequest, SystemResult, WasmQuery};
        let req: QueryRequest<Empty> = QueryRequest::Wasm(WasmQuery::Smart { contract_addr: to.to_string(), msg: Binary::from(msg_json) });
        let bin = cosmwasm_std::to_vec(&req).map_err(|e| e.to_string())?;
        let app = &self.app;
        match symrt::catch(|| app.raw_query(&bin)) {
            Ok(SystemResult::Ok(ContractResult::Ok(b))) => Ok(b.0),
            Ok(SystemResult::Ok(ContractResult::Err(e))) => Err(e),
            Ok(SystemResult::Err(e)) => Err(format!("{}", e)),
            Err(p) => Err(p),
        }
    }
    pub fn position(&self, vi: usize, trader: &str) -> Option<Position> {
        self.q::<Position, _>(&self.engine, &EngineQuery::Position { vamm: self.vamms[vi].to_string(), trader: trader.into() }).ok()
    }
    pub fn vamm_state(&self, vi: usize) -> VammState {
        self.q(&self.vamms[vi], &VammQuery::State {}).expect("vamm state")
    }
    pub fn vamm_config(&self, vi: usize) -> VammConfig {
        self.q(&self.vamms[vi], &VammQuery::Config {}).expect("vamm config")
    }
    pub fn engine_state(&self) -> EngineState {
        self.q(&self.engine, &EngineQuery::State {}).expect("engine state")
    }
    pub fn engine_config(&self) -> margined_perp::margined_engine::ConfigResponse {
        self.q(&self.engine, &EngineQuery::Config {}).expect("engine config")
    }
    pub fn margin_ratio(&self, vi: usize, trader: &str) -> Result<Integer, String> {
        self.q(&self.engine, &EngineQuery::MarginRatio { vamm: self.vamms[vi].to_string(), trader: trader.into() })
    }
    pub fn free_collateral(&self, vi: usize, trader: &str) -> Result<Integer, String> {
        self.q(&self.engine, &EngineQuery::FreeCollateral { vamm: self.vamms[vi].to_string(), trader: trader.into() })
    }
    pub fn cum_premium(&self, vi: usize) -> Integer {
        self.q(&self.engine, &EngineQuery::CumulativePremiumFraction { vamm: self.vamms[vi].to_string() }).expect("cum premium")
    }
    pub fn unrealized(&self, vi: usize, trader: &str, opt: PnlCalcOption) -> Result<PositionUnrealizedPnlResponse, String> {
        self.q(&self.engine, &EngineQuery::UnrealizedPnl { vamm: self.vamms[vi].to_string(), trader: trader.into(), calc_option: opt })
    }
    pub fn output_amount(&self, vi: usize, dir: Direction, amount: Uint128) -> Result<Uint128, String> {
        self.q(&self.vamms[vi], &VammQuery::OutputAmount { direction: dir, amount })
    }
    pub fn input_amount(&self, vi: usize, dir: Direction, amount: Uint128) -> Result<Uint128, String> {
        self.q(&self.vamms[vi], &VammQuery::InputAmount { direction: dir, amount })
    }
    pub fn output_twap(&self, vi: usize, dir: Direction, amount: Uint128) -> Result<Uint128, String> {
        self.q(&self.vamms[vi], &VammQuery::OutputTwap { direction: dir, amount })
    }
    pub fn spot_price(&self, vi: usize) -> Result<Uint128, String> {
        self.q(&self.vamms[vi], &VammQuery::SpotPrice {})
    }
    pub fn twap_price(&self, vi: usize, interval: u64) -> Result<Uint128, String> {
        self.q(&self.vamms[vi], &VammQuery::TwapPrice { interval })
    }
    pub fn calc_fee(&self, vi: usize, n: Uint128) -> Result<CalcFeeResponse, String> {
        self.q(&self.vamms[vi], &VammQuery::CalcFee { quote_asset_amount: n })
    }
    pub fn underlying_price(&self, vi: usize) -> Result<Uint128, String> {
        self.q(&self.vamms[vi], &VammQuery::UnderlyingPrice {})
    }
    pub fn underlying_twap(&self, vi: usize, interval: u64) -> Result<Uint128, String> {
        self.q(&self.vamms[vi], &VammQuery::UnderlyingTwapPrice { interval })
    }
    pub fn over_spread(&self, vi: usize) -> Result<bool, String> {
        self.q(&self.vamms[vi], &VammQuery::IsOverSpreadLimit {})
    }
    pub fn over_fluct(&self, vi: usize, dir: Direction, amount: Uint128) -> Result<bool, String> {
        self.q(&self.vamms[vi], &VammQuery::IsOverFluctuationLimit { direction: dir, base_asset_amount: amount })
    }
    pub fn is_vamm(&self, vi: usize) -> bool {
        self.q::<margined_perp::margined_insurance_fund::VammResponse, _>(&self.ins, &InsQuery::IsVamm { vamm: self.vamms[vi].to_string() })
            .map(|r| r.is_vamm)
            .unwrap_or(false)
    }
    pub fn balance(&self, who: &Addr) -> Uint128 {
        match &self.token {
            Some(t) => self.q::<cw20::BalanceResponse, _>(t, &Cw20QueryMsg::Balance { address: who.to_string() }).expect("balance").balance,
            None => self.app.wrap().query_balance(who.to_string(), denom()).expect("bank balance").amount,
        }
    }
    pub fn accounts(&self) -> Vec<(String, Addr)> {
        let mut v: Vec<(String, Addr)> = vec![ALICE, BOB, CAROL, LIQ, EVE, OWNER].iter().map(|a| (a.to_string(), addr(a))).collect();
        v.push(("engine".into(), self.engine.clone()));
        v.push(("insurance_fund".into(), self.ins.clone()));
        v.push(("fee_pool".into(), self.feepool.clone()));
        if let Some(o) = &self.old_feepool {
            v.push(("fee_pool_old".into(), o.clone()));
        }
        for (i, a) in self.vamms.iter().enumerate() {
            v.push((format!("vamm{}", i), a.clone()));
        }
        v.push(("pricefeed".into(), self.feed.clone()));
        v
    }
    pub fn balances(&self) -> BTreeMap<String, Uint128> {
        self.accounts().into_iter().map(|(n, a)| (n, self.balance(&a))).collect()
    }
    /// raw storage of every contract
    pub fn dump(&self) -> BTreeMap<String, Vec<(Vec<u8>, Vec<u8>)>> {
        let mut out = BTreeMap::new();
        let mut cs: Vec<(String, Addr)> = vec![("fee_pool".into(), self.feepool.clone()), ("pricefeed".into(), self.feed.clone())];
        if !self.cfg.vamm_engine_is_owner {
            cs.push(("engine".into(), self.engine.clone()));
            cs.push(("insurance_fund".into(), self.ins.clone()));
        }
        for (i, a) in self.vamms.iter().enumerate() {
            cs.push((format!("vamm{}", i), a.clone()));
        }
        if let Some(t) = &self.token {
            cs.push(("cw20".into(), t.clone()));
        }
        for (n, a) in cs {
            out.insert(n, self.app.dump_wasm_raw(&a));
        }
        out
    }
    /// log the main numbers (evaluated at the witness) for shim-vs-real trace validation
    pub fn observe(&self) {
        for vi in 0..self.vamms.len() {
            let st = self.vamm_state(vi);
            symrt::log_val(&format!("v{}.x", vi), sx::x(st.quote_asset_reserve));
            symrt::log_val(&format!("v{}.y", vi), sx::x(st.base_asset_reserve));
            symrt::log_val(&format!("v{}.tps", vi), sx::si(&st.total_position_size).0);
            if !self.cfg.vamm_engine_is_owner {
                for t in TRADERS.iter() {
                    if let Some(p) = self.position(vi, t) {
                        symrt::log_val(&format!("v{}.{}.size", vi, t), sx::si(&p.size).0);
                        symrt::log_val(&format!("v{}.{}.margin", vi, t), sx::x(p.margin));
                        symrt::log_val(&format!("v{}.{}.notional", vi, t), sx::x(p.notional));
                    }
                }
            }
        }
        if !self.cfg.vamm_engine_is_owner {
            for (n, b) in self.balances() {
                symrt::log_val(&format!("bal.{}", n), sx::x(b));
            }
        }
    }
}

pub fn side_dir(side: &Side) -> Direction {
    match side {
        Side::Buy => Direction::AddToAmm,
        Side::Sell => Direction::RemoveFromAmm,
    }
}
pub fn flip(d: &Direction) -> Direction {
    match d {
        Direction::AddToAmm => Direction::RemoveFromAmm,
        Direction::RemoveFromAmm => Direction::AddToAmm,
    }
}
#[allow(dead_code)]
pub fn to_bin<T: Serialize>(t: &T) -> Binary {
    to_binary(t).unwrap()
}
