//! Property-specific step oracles evaluated after every engine transaction of a run, from
//! observations made through the public query API before and after it.
use crate::sx::{c, s, si, Cond, SInt};
use crate::tpl::*;
use crate::world::*;
use cosmwasm_std::Uint128;
use margined_perp::margined_vamm::CalcFeeResponse;
use symrt::prove_d;

/// observations made immediately before a transaction (only what the run's property needs)
#[derive(Default, Clone)]
pub struct PreObs {
    /// CalcFee on the notional the operation requests to trade (Open) / on the open notional (Close)
    pub fee: Option<CalcFeeResponse>,
    pub notional: Option<Uint128>,
}

pub fn pre_obs(r: &Run, op: &Op, pre: &Snap) -> PreObs {
    let mut o = PreObs::default();
    match r.mon.prop {
        "C12" => match op {
            Op::Open { margin, lev, .. } => {
                let d = Uint128::new(r.w.d);
                if let Ok(Some(n)) = symrt::catch(|| margin.checked_mul(*lev).ok().and_then(|x| x.checked_div(d).ok())) {
                    o.notional = Some(n);
                    o.fee = r.w.calc_fee(r.vi, n).ok();
                }
            }
            Op::Close { who, .. } => {
                if let Some(p) = &pre.pos[&(r.vi, *who)] {
                    o.notional = Some(p.notional);
                    o.fee = r.w.calc_fee(r.vi, p.notional).ok();
                }
            }
            _ => {}
        },
        _ => {}
    }
    o
}

pub fn step_oracle(r: &Run, rec: &StepRec) {
    match r.mon.prop {
        "C12" => c12(r, rec),
        _ => {}
    }
}

fn delta(rec: &StepRec, who: &str) -> SInt {
    s(rec.post.bal[who]).sub(s(rec.pre.bal[who]))
}

/// C12: exact fees, charged once, routed to the right pools
fn c12(r: &Run, rec: &StepRec) {
    let d = r.w.d;
    let what = &rec.what;
    let pool = delta(rec, "fee_pool");
    // insurance-fund delta net of what the engine simultaneously records as prepaid bad debt
    let ins = delta(rec, "insurance_fund").add(s(rec.post.eng.bad_debt).sub(s(rec.pre.eng.bad_debt)));
    if !rec.tx.ok {
        prove_d("C12/failed-transaction-charges-nothing", pool.eq(c(0)).and(ins.eq(c(0))), what.clone());
        return;
    }
    match &rec.op {
        Op::Open { margin, lev, .. } => {
            let cfg = r.w.vamm_config(r.vi);
            let n = s(*margin).mul(s(*lev)).div_e(c(d));
            let toll = n.mul(s(cfg.toll_ratio)).div_e(c(d));
            let spread = n.mul(s(cfg.spread_ratio)).div_e(c(d));
            // which arm ran (from the delivered vAMM messages): 2 swaps = reversal
            let swaps = rec.tx.msgs_to("vamm").len();
            let arm = if swaps >= 2 { "reverse" } else { "single-leg" };
            prove_d("C12/open-pays-fee-pool-floor(notional*toll)", pool.eq(toll), format!("{} {}", what, arm));
            prove_d("C12/open-pays-insurance-fund-floor(notional*spread)", ins.eq(spread), format!("{} {}", what, arm));
            if let Some(f) = &rec.obs.fee {
                prove_d("C12/open-fee-equals-vamm-quote", s(f.toll_fee).eq(toll).and(s(f.spread_fee).eq(spread)), what.clone());
            }
        }
        Op::Close { .. } => {
            // a whole close charges the fee quoted for the open notional (partial closes are not
            // covered by the statement)
            let whole = rec.post.pos[&(r.vi, rec.op.sender())].is_none();
            if whole {
                if let Some(f) = &rec.obs.fee {
                    prove_d("C12/close-pays-fee-pool-quoted-toll-on-open-notional", pool.eq(s(f.toll_fee)), what.clone());
                    prove_d("C12/close-pays-insurance-fund-quoted-spread-on-open-notional", ins.eq(s(f.spread_fee)), what.clone());
                } else {
                    prove_d("C12/close-fee-quote-available", Cond::False, what.clone());
                }
            }
        }
        Op::Deposit { .. } | Op::Withdraw { .. } => {
            prove_d("C12/deposit-withdraw-charge-no-fee", pool.eq(c(0)).and(ins.eq(c(0))), what.clone());
        }
        Op::PayFunding { .. } | Op::Liquidate { .. } => {
            prove_d("C12/funding-and-liquidation-pay-nothing-to-fee-pool", pool.eq(c(0)), what.clone());
        }
    }
    let _ = si;
}
