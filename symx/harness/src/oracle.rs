//! Property-specific step oracles evaluated after every engine transaction of a run, from
//! observations made through the public query API before and after it.
use crate::sx::{c, s, si, Cond, SInt};
use crate::tpl::*;
use crate::world::*;
use cosmwasm_std::Uint128;
use margined_perp::margined_vamm::{CalcFeeResponse, Direction};
use symrt::prove_d;

/// observations made immediately before a transaction (only what the run's property needs)
#[derive(Default, Clone)]
pub struct PreObs {
    /// CalcFee on the notional the operation requests to trade (Open) / on the open notional (Close)
    pub fee: Option<CalcFeeResponse>,
    pub notional: Option<Uint128>,
    /// subject's position and the vAMM quotes for exchanging its whole size (spot / 15-min TWAP)
    pub pos: Option<margined_perp::margined_engine::Position>,
    pub out_spot: Option<Uint128>,
    pub out_twap: Option<Uint128>,
    pub spot_price: Option<Uint128>,
    pub oracle: Option<Uint128>,
}

/// the trader an operation is about
pub fn subject(op: &Op) -> &'static str {
    match op {
        Op::Liquidate { trader, .. } => trader,
        _ => op.sender(),
    }
}

fn observe_position(r: &Run, op: &Op, pre: &Snap, o: &mut PreObs) {
    if let Some(p) = &pre.pos[&(r.vi, subject(op))] {
        o.out_spot = r.w.output_amount(r.vi, p.direction.clone(), p.size.value).ok();
        o.out_twap = r.w.output_twap(r.vi, p.direction.clone(), p.size.value).ok();
        o.spot_price = r.w.spot_price(r.vi).ok();
        // (the configured feed's latest price by the harness's own record of its submissions)
        o.oracle = r.w.oracle_ledger.or(r.w.underlying_price(r.vi).ok());
        o.pos = Some(p.clone());
    }
}

pub fn pre_obs(r: &Run, op: &Op, pre: &Snap) -> PreObs {
    let mut o = PreObs::default();
    if matches!(r.mon.prop, "C04" | "C05" | "C06" | "C07" | "C11" | "C12") {
        observe_position(r, op, pre, &mut o);
        if let Op::Close { who, .. } = op {
            if let Some(p) = &pre.pos[&(r.vi, *who)] {
                o.fee = r.w.calc_fee(r.vi, p.notional).ok();
            }
        }
    }
    match r.mon.prop {
        "C12" => match op {
            Op::Open { margin, lev, .. } => {
                let d = Uint128::new(r.w.d);
                if let Ok(Some(n)) = symrt::catch(|| margin.checked_mul(*lev).ok().and_then(|x| x.checked_div(d).ok())) {
                    o.notional = Some(n);
                    o.fee = r.w.calc_fee(r.vi, n).ok();
                }
            }
            Op::Close { who, .. } => {
                if let Some(p) = &pre.pos[&(r.vi, *who)] {
                    o.notional = Some(p.notional);
                    o.fee = r.w.calc_fee(r.vi, p.notional).ok();
                }
            }
            _ => {}
        },
        _ => {}
    }
    o
}

pub fn step_oracle(r: &Run, rec: &StepRec) {
    match r.mon.prop {
        "C12" => c12(r, rec),
        "C04" => c04(r, rec),
        "C05" => c05(r, rec),
        "C06" => c06(r, rec),
        "C11" => c11(r, rec),
        "C07" => c07(r, rec),
        _ => {}
    }
}

fn delta(rec: &StepRec, who: &str) -> SInt {
    s(rec.post.bal[who]).sub(s(rec.pre.bal[who]))
}

/// C12: exact fees, charged once, routed to the right pools
fn c12(r: &Run, rec: &StepRec) {
    let d = r.w.d;
    let what = &rec.what;
    let pool = delta(rec, "fee_pool");
    // insurance-fund delta net of what the engine simultaneously records as prepaid bad debt
    let ins = delta(rec, "insurance_fund").add(s(rec.post.eng.bad_debt).sub(s(rec.pre.eng.bad_debt)));
    if !rec.tx.ok {
        prove_d("C12/failed-transaction-charges-nothing", pool.eq(c(0)).and(ins.eq(c(0))), what.clone());
        return;
    }
    match &rec.op {
        Op::Open { margin, lev, .. } => {
            // the ratios as configured (harness ledger of instantiation and owner updates)
            let (toll_r, spread_r) = r.w.fees_of(r.vi);
            let n = s(*margin).mul(s(*lev)).div_e(c(d));
            let toll = n.mul(s(toll_r)).div_e(c(d));
            let spread = n.mul(s(spread_r)).div_e(c(d));
            // which arm ran (from the delivered vAMM messages): 2 swaps = reversal
            let swaps = rec.tx.msgs_to("vamm").len();
            let arm = if swaps >= 2 { "reverse" } else { "single-leg" };
            prove_d("C12/open-pays-fee-pool-floor(notional*toll)", pool.eq(toll), format!("{} {}", what, arm));
            prove_d("C12/open-pays-insurance-fund-floor(notional*spread)", ins.eq(spread), format!("{} {}", what, arm));
            if let Some(f) = &rec.obs.fee {
                prove_d("C12/open-fee-equals-vamm-quote", s(f.toll_fee).eq(toll).and(s(f.spread_fee).eq(spread)), what.clone());
            }
            // native collateral: the coins the engine accepted with the order are what the trader
            // is charged - the margin owed to the vault plus BOTH fees (fresh open), less what the
            // closed leg releases (reversal)
            if let (true, Op::Open { who, funds: Some(_), .. }) = (r.w.token.is_none(), &rec.op) {
                let p1m = rec.post.pos[&(r.vi, *who)].as_ref().map(|p| s(p.margin)).unwrap_or(c(0));
                // (net of everything: coins attached, refunds of a closed leg)
                let paid = delta(rec, who).neg();
                let no_bad_debt = s(rec.post.eng.bad_debt).eq(s(rec.pre.eng.bad_debt));
                match (&rec.obs.pos, rec.obs.out_spot) {
                    (None, _) => {
                        prove_d("C12/native-open-charges-margin-and-both-fees", paid.eq(p1m.add(toll).add(spread)), format!("{} fresh", what));
                    }
                    (Some(p0), Some(q)) if swaps >= 2 && !p0.size.value.is_zero() => {
                        let fund = crate::spec::funding_owed(p0, &r.cum_ledger[r.vi], d);
                        let eq_old = crate::spec::equity(p0, crate::spec::pnl(p0, q), fund);
                        let owed = p1m.add(toll).add(spread).sub(eq_old);
                        prove_d("C12/native-open-charges-margin-and-both-fees", eq_old.ge(c(0)).and(no_bad_debt).implies(paid.eq(owed)), format!("{} reversal", what));
                    }
                    _ => {}
                }
            }
        }
        Op::Close { .. } => {
            // a whole close charges the fee quoted for the open notional (partial closes are not
            // covered by the statement)
            let whole = rec.post.pos[&(r.vi, rec.op.sender())].is_none();
            if whole {
                if let Some(f) = &rec.obs.fee {
                    // the quote itself is the configured ratio of the position's open notional
                    if let Some(p) = &rec.obs.pos {
                        let (toll_r, spread_r) = r.w.fees_of(r.vi);
                        let t = s(p.notional).mul(s(toll_r)).div_e(c(d));
                        let sp = s(p.notional).mul(s(spread_r)).div_e(c(d));
                        prove_d("C12/close-fee-quote-is-configured-ratio-of-open-notional", s(f.toll_fee).eq(t).and(s(f.spread_fee).eq(sp)), what.clone());
                    }
                    prove_d("C12/close-pays-fee-pool-quoted-toll-on-open-notional", pool.eq(s(f.toll_fee)), what.clone());
                    prove_d("C12/close-pays-insurance-fund-quoted-spread-on-open-notional", ins.eq(s(f.spread_fee)), what.clone());
                    // ... and it is the trader who is charged: the wallet receives the position's
                    // equity less exactly these fees (both collateral kinds)
                    if let (Some(p), Some(q)) = (&rec.obs.pos, rec.obs.out_spot) {
                        let fund = crate::spec::funding_owed(p, &r.cum_ledger[r.vi], d);
                        let eq = crate::spec::equity(p, crate::spec::pnl(p, q), fund);
                        prove_d("C12/close-fees-are-charged-to-the-trader", delta(rec, rec.op.sender()).eq(eq.sub(s(f.toll_fee)).sub(s(f.spread_fee))), what.clone());
                    }
                } else {
                    prove_d("C12/close-fee-quote-available", Cond::False, what.clone());
                }
            }
        }
        Op::Deposit { .. } | Op::Withdraw { .. } => {
            prove_d("C12/deposit-withdraw-charge-no-fee", pool.eq(c(0)).and(ins.eq(c(0))), what.clone());
        }
        Op::PayFunding { .. } | Op::Liquidate { .. } => {
            prove_d("C12/funding-and-liquidation-pay-nothing-to-fee-pool", pool.eq(c(0)), what.clone());
        }
    }
    let _ = si;
}

// ------------------------------------------------------------------------------------------
// C04: closing pays exactly the equity; bad debt cannot be cashed out
// ------------------------------------------------------------------------------------------
fn c04(r: &Run, rec: &StepRec) {
    use crate::spec;
    let d = r.w.d;
    let what = &rec.what;
    let trader_op = matches!(rec.op, Op::Open { .. } | Op::Close { .. } | Op::Deposit { .. } | Op::Withdraw { .. });
    if trader_op {
        // the insurance fund never loses more than the engine simultaneously records as prepaid bad debt
        let ins_loss = s(rec.pre.bal["insurance_fund"]).sub(s(rec.post.bal["insurance_fund"]));
        let debt_rise = s(rec.post.eng.bad_debt).sub(s(rec.pre.eng.bad_debt));
        prove_d("C04/insurance-fund-loss<=recorded-prepaid-bad-debt", ins_loss.le(debt_rise), what.clone());
    }
    if let Op::Close { who, .. } = &rec.op {
        let (p, q) = match (&rec.obs.pos, rec.obs.out_spot) {
            (Some(p), Some(q)) => (p, q),
            _ => return,
        };
        // funding owed up to the last settlement (harness ledger; equal to the engine's current
        // cumulative fraction unless something other than a settlement moved it)
        let f = spec::funding_owed(p, &r.cum_ledger[r.vi], d);
        let eq = spec::equity(p, spec::pnl(p, q), f);
        // with a zero fluctuation limit ClosePosition always closes the whole position; under a
        // limit it may close a fraction, which realises only that fraction of the PnL
        let always_whole = r.w.vamm_config(r.vi).fluctuation_limit_ratio.is_zero();
        if rec.tx.ok {
            let whole = rec.post.pos[&(r.vi, *who)].is_none();
            if whole {
                prove_d("C04/close-succeeds-only-without-bad-debt", spec::ge0(eq), what.clone());
            }
            if whole {
                let fees = match &rec.obs.fee {
                    Some(f) => s(f.toll_fee).add(s(f.spread_fee)),
                    None => c(0),
                };
                prove_d("C04/whole-close-pays-margin+pnl-funding(minus-fees)", delta(rec, who).eq(eq.sub(fees)), what.clone());
                // funding owed measured from the harness's own ledger of when the position was last
                // charged (a stale checkpoint must not make a settlement count twice or not at all)
                if let Some(at) = r.charged_at.get(&(r.vi, *who)) {
                    let f2 = si(&r.cum_ledger[r.vi]).sub(si(at)).mul(si(&p.size)).div_t(c(d));
                    let eq2 = spec::equity(p, spec::pnl(p, q), f2);
                    prove_d("C04/whole-close-charges-only-funding-accrued-since-last-charge", delta(rec, who).eq(eq2.sub(fees)), what.clone());
                }
            }
            if whole {
                // exchanged amount == the quote taken before (C17 at engine level)
                let x0 = s(rec.pre.vamm[r.vi].quote_asset_reserve);
                let x1 = s(rec.post.vamm[r.vi].quote_asset_reserve);
                prove_d("C04/close-exchanges-the-quoted-amount", x0.sub(x1).abs().eq(s(q)), what.clone());
            }
        } else if rec.post.pos[&(r.vi, *who)].is_some() && !rec.tx.err.contains("bad debt") {
            // informational only: other failure reasons (limits, band, restriction mode) are legitimate
        }
        if !rec.tx.ok {
            // nothing to check: "a close that would leave the trader owing more than the margin is rejected"
        } else {
            let _ = ();
        }
        // equity < 0  =>  the whole close fails
        if always_whole {
            prove_d("C04/close-with-negative-equity-rejected", eq.lt(c(0)).implies(Cond::from_bool(!rec.tx.ok)), what.clone());
        } else if rec.tx.ok {
            if let Some(p1) = &rec.post.pos[&(r.vi, *who)] {
                // partial close: realised fraction of the PnL and the funding were covered by the margin
                let closed = s(p.size.value).sub(s(p1.size.value));
                let realised = spec::pnl(p, q).mul(closed).div_t(s(p.size.value));
                prove_d("C04/partial-close-succeeds-only-if-margin-covers-realised-loss-and-funding", s(p.margin).add(realised).sub(f).ge(SInt::i(-2)), what.clone());
            }
        }
    }
}

// ------------------------------------------------------------------------------------------
// C05: trader actions never leave the trader under-margined
// ------------------------------------------------------------------------------------------
fn c05(r: &Run, rec: &StepRec) {
    use crate::spec;
    let d = r.w.d;
    let what = &rec.what;
    let cfg = r.w.engine_config();
    match &rec.op {
        Op::Open { who, lev, .. } => {
            // leverage below 1 or above 1/initial ratio is rejected
            let bad_lev = s(*lev).lt(c(d)).or(s(*lev).mul(s(cfg.initial_margin_ratio)).gt(c(d).mul(c(d))));
            prove_d("C05/leverage-outside-[1,1/initial]-rejected", bad_lev.implies(Cond::from_bool(!rec.tx.ok)), what.clone());
            if !rec.tx.ok {
                return;
            }
            if let Some(p1) = &rec.post.pos[&(r.vi, *who)] {
                if p1.size.value.is_zero() {
                    return;
                }
                match r.w.margin_ratio(r.vi, who) {
                    Ok(mr) => {
                        prove_d("C05/margin-ratio-after-open>=maintenance", si(&mr).ge(s(cfg.maintenance_margin_ratio)), what.clone());
                        // the query itself agrees with the ratio recomputed from primitives
                        let (os, ot) = (r.w.output_amount(r.vi, p1.direction.clone(), p1.size.value), r.w.output_twap(r.vi, p1.direction.clone(), p1.size.value));
                        if let (Ok(os), Ok(ot)) = (os, ot) {
                            let cum = r.w.cum_premium(r.vi);
                            let i = spec::RatioIn { p: p1, out_spot: os, out_twap: ot, cum: &cum, spot_price: Uint128::zero(), oracle: None, d };
                            prove_d("C05/margin-ratio-query=recomputed-ratio", si(&mr).eq(spec::ratio_spot_twap(&i)), what.clone());
                        }
                    }
                    Err(e) => {
                        prove_d("C05/margin-ratio-query-available-after-open", Cond::False, format!("{} {}", what, crate::sx::norm(&e)));
                    }
                }
            }
        }
        Op::Withdraw { who, amount } => {
            if !rec.tx.ok {
                return;
            }
            let p0 = match &rec.obs.pos {
                Some(p) => p,
                None => return,
            };
            let p1 = match &rec.post.pos[&(r.vi, *who)] {
                Some(p) => p,
                None => {
                    prove_d("C05/withdraw-keeps-position", Cond::False, what.clone());
                    return;
                }
            };
            let f = spec::funding_owed(p0, &r.cum_ledger[r.vi], d);
            prove_d("C05/withdraw-wallet-receives-exactly-the-amount", delta(rec, who).eq(s(*amount)), what.clone());
            prove_d("C05/withdraw-margin-falls-by-amount+funding", s(p0.margin).sub(s(p1.margin)).eq(s(*amount).add(f)), what.clone());
            // funding owed by the harness's own ledger of when the position was last charged (a
            // stale checkpoint must not make a settled payment count again)
            if let Some(at) = r.charged_at.get(&(r.vi, *who)) {
                let f2 = si(&r.cum_ledger[r.vi]).sub(si(at)).mul(si(&p0.size)).div_t(c(d));
                prove_d("C05/withdraw-margin-falls-by-amount+funding-accrued-since-last-charge", s(p0.margin).sub(s(p1.margin)).eq(s(*amount).add(f2)), what.clone());
            }
            // free collateral recomputed from Position, OutputAmount, OutputTwap and Config after
            // the withdrawal (not the engine's FreeCollateral answer)
            {
                let dir = if spec::is_long(p1) { Direction::AddToAmm } else { Direction::RemoveFromAmm };
                if let (Ok(os), Ok(ot)) = (r.w.output_amount(r.vi, dir.clone(), p1.size.value), r.w.output_twap(r.vi, dir, p1.size.value)) {
                    let init = r.w.engine_config().initial_margin_ratio;
                    prove_d("C05/recomputed-free-collateral-non-negative-after-withdraw", spec::free_collateral(p1, os, ot, init, d).ge(c(0)), what.clone());
                }
            }
            match r.w.free_collateral(r.vi, who) {
                Ok(fc) => {
                    prove_d("C05/free-collateral-non-negative-after-withdraw", si(&fc).ge(c(0)), what.clone());
                }
                Err(e) => {
                    prove_d("C05/free-collateral-query-available", Cond::False, format!("{} {}", what, crate::sx::norm(&e)));
                }
            }
            // no bad debt is created: the stored margin was enough for amount + funding
            prove_d("C05/withdraw-creates-no-bad-debt", s(p0.margin).sub(s(*amount)).sub(f).ge(c(0)), what.clone());
        }
        Op::Deposit { who, amount, .. } => {
            if !rec.tx.ok {
                return;
            }
            if let (Some(p0), Some(p1)) = (&rec.obs.pos, &rec.post.pos[&(r.vi, *who)]) {
                prove_d("C05/deposit-raises-margin-by-exactly-the-amount", s(p1.margin).sub(s(p0.margin)).eq(s(*amount)), what.clone());
                prove_d("C05/deposit-takes-exactly-the-amount-from-the-wallet", delta(rec, who).eq(s(*amount).neg()), what.clone());
            } else {
                prove_d("C05/deposit-needs-a-position", Cond::False, what.clone());
            }
        }
        _ => {}
    }
}

// ------------------------------------------------------------------------------------------
// C06 / C07: liquidation safety (only under-margined, exact payouts) and liveness
// ------------------------------------------------------------------------------------------
fn liq_ratio(r: &Run, rec: &StepRec) -> Option<SInt> {
    use crate::spec;
    let (p, os, ot, sp) = match (&rec.obs.pos, rec.obs.out_spot, rec.obs.out_twap, rec.obs.spot_price) {
        (Some(p), Some(os), Some(ot), Some(sp)) => (p, os, ot, sp),
        _ => return None,
    };
    // a flattened record of size zero is not a position (its ratio is undefined)
    if p.size.value.is_zero() {
        return None;
    }
    // funding owed is measured from the harness's own ledger of when the position was last charged
    // (equal to the stored checkpoint unless the engine let it go stale)
    let mut pl = p.clone();
    if let Some(at) = r.charged_at.get(&(r.vi, subject(&rec.op))) {
        pl.last_updated_premium_fraction = *at;
    }
    let i = spec::RatioIn { p: &pl, out_spot: os, out_twap: ot, cum: &r.cum_ledger[r.vi], spot_price: sp, oracle: rec.obs.oracle, d: r.w.d };
    Some(spec::ratio_for_liquidation(&i))
}

fn c06(r: &Run, rec: &StepRec) {
    use crate::spec;
    let d = r.w.d;
    let (by, trader) = match &rec.op {
        Op::Liquidate { by, trader, .. } => (*by, *trader),
        _ => return,
    };
    if !rec.tx.ok {
        return;
    }
    let what = &rec.what;
    let cfg = r.w.engine_config();
    let p0 = match &rec.obs.pos {
        Some(p) => p,
        None => {
            prove_d("C06/liquidation-needs-a-position", Cond::False, what.clone());
            return;
        }
    };
    match liq_ratio(r, rec) {
        Some(ratio) => {
            prove_d("C06/liquidated-only-if-margin-ratio<=maintenance", ratio.le(s(cfg.maintenance_margin_ratio)), what.clone());
        }
        None => {
            prove_d("C06/ratio-observable-before-liquidation", Cond::False, what.clone());
        }
    }
    // quote actually exchanged with the vAMM
    let q = s(rec.pre.vamm[r.vi].quote_asset_reserve).sub(s(rec.post.vamm[r.vi].quote_asset_reserve)).abs();
    let pen = q.mul(s(cfg.liquidation_fee)).div_e(c(d));
    let liq_gain = delta(rec, by);
    let ins_net = delta(rec, "insurance_fund").add(s(rec.post.eng.bad_debt).sub(s(rec.pre.eng.bad_debt)));
    prove_d("C06/liquidated-trader-receives-nothing", delta(rec, trader).eq(c(0)), what.clone());
    match &rec.post.pos[&(r.vi, trader)] {
        None => {
            let kind = format!("{} full", what);
            // exactly half of (quote exchanged x fee ratio), either rounding of the half
            prove_d("C06/full-liquidation-pays-liquidator-half-the-penalty", liq_gain.mul(c(2)).sub(pen).abs().le(c(1)), kind.clone());
            // remaining margin goes to the insurance fund
            let f = spec::funding_owed(p0, &rec.pre.cum[r.vi], d);
            // realised with the quote actually exchanged
            let pnl = if spec::is_long(p0) { q.sub(s(p0.notional)) } else { s(p0.notional).sub(q) };
            let eq = spec::equity(p0, pnl, f);
            let remaining = eq.sub(liq_gain);
            prove_d("C06/full-liquidation-sends-remaining-margin-to-insurance-fund", remaining.ge(c(0)).implies(ins_net.eq(remaining)), kind);
        }
        Some(p1) => {
            let kind = format!("{} partial", what);
            let want = s(p0.size.value).mul(s(cfg.partial_liquidation_ratio)).div_e(c(d));
            prove_d("C06/partial-liquidation-reduces-size-by-exactly-the-fraction", s(p0.size.value).sub(s(p1.size.value)).eq(want), kind.clone());
            prove_d(
                "C06/partial-liquidation-never-flips-or-grows",
                Cond::from_bool(p1.size.negative == p0.size.negative && p1.direction == p0.direction).and(s(p1.size.value).lt(s(p0.size.value))),
                kind.clone(),
            );
            prove_d("C06/partial-liquidation-pays-liquidator-half-the-penalty", liq_gain.mul(c(2)).sub(pen).abs().le(c(1)), kind.clone());
            prove_d("C06/partial-liquidation-pays-insurance-fund-half-the-penalty", ins_net.mul(c(2)).sub(pen).abs().le(c(1)), kind);
        }
    }
    let _ = si;
}

fn c07(r: &Run, rec: &StepRec) {
    let (_by, _trader) = match &rec.op {
        Op::Liquidate { by, trader, .. } => (*by, *trader),
        _ => return,
    };
    if rec.tx.ok {
        return;
    }
    let cfg = r.w.engine_config();
    let ratio = match liq_ratio(r, rec) {
        Some(x) => x,
        None => return, // the closing trade cannot be quoted: outside the property's precondition
    };
    // open, registered, quotable, inside the band, non-zero fee, insurance fund funded: a failure is only acceptable if the position is not
    // under-margined (for every value on this path)
    let st = &rec.pre.vamm[r.vi];
    // (registration according to the harness's ledger of the owner's calls, not the fund's answer)
    if !st.open || !r.w.registered.contains(&r.w.vamms[r.vi].to_string()) {
        return;
    }
    // "the insurance fund holds enough to cover any shortfall": a sufficient bound on what it can
    // be asked for is the position's negative equity plus the whole penalty
    let enough = match (&rec.obs.pos, rec.obs.out_spot) {
        (Some(p), Some(q)) => {
            let f = crate::spec::funding_owed(p, &rec.pre.cum[r.vi], r.w.d);
            let eq = crate::spec::equity(p, crate::spec::pnl(p, q), f);
            let pen = s(q).mul(s(cfg.liquidation_fee)).div_e(c(r.w.d));
            let need = SInt::zero().max(eq.neg()).add(pen);
            s(rec.pre.bal["insurance_fund"]).ge(need)
        }
        _ => Cond::True,
    };
    // "not already outside its per-block price band": with a fluctuation limit f the band is
    // [floor(last x (D - f) / D), floor(last x (D + f) / D)] around the price at the end of the
    // previous block (harness ledger); a price exactly on an edge is not outside
    let f = r.w.vamm_config(r.vi).fluctuation_limit_ratio;
    let in_band = if f.is_zero() {
        Cond::True
    } else {
        match (r.w.last_spot.get(r.vi).cloned().flatten(), rec.obs.spot_price) {
            (Some(last), Some(spot)) => {
                let d = r.w.d;
                let upper = s(last).mul(c(d).add(s(f))).div_e(c(d));
                let lower = s(last).mul(c(d).sub(s(f))).div_e(c(d));
                lower.le(s(spot)).and(s(spot).le(upper))
            }
            _ => return, // band reference unknown: outside what this oracle can judge
        }
    };
    let pre = ratio.lt(s(cfg.maintenance_margin_ratio)).and(s(cfg.liquidation_fee).ne(c(0))).and(enough).and(in_band);
    let kind = if !cfg.partial_liquidation_ratio.is_zero() { "partial-ratio>0" } else { "partial-ratio=0" };
    prove_d(
        "C07/under-margined-position-can-be-liquidated",
        pre.not(),
        format!("liquidate failed [{}]{} {}", kind, if r.funding_settled { " [after-funding]" } else { "" }, crate::sx::norm(&rec.tx.err)),
    );
}

// ------------------------------------------------------------------------------------------
// C11: each position is charged (cumulative fraction - checkpoint) x size exactly when its owner
// acts on it, and the checkpoint then moves to the current value
// ------------------------------------------------------------------------------------------
fn c11(r: &Run, rec: &StepRec) {
    use crate::spec;
    let d = r.w.d;
    let what = &rec.what;
    // only a funding settlement moves the cumulative premium fraction
    if !matches!(rec.op, Op::PayFunding { .. }) || !rec.tx.ok {
        prove_d("C11/cumulative-fraction-moves-only-at-settlement", si(&rec.post.cum[r.vi]).eq(si(&rec.pre.cum[r.vi])), what.clone());
    }
    // ... and only on the vAMM that was settled: every other vAMM's cumulative fraction and
    // funding schedule are untouched by this transaction
    for vj in 0..rec.pre.cum.len() {
        if vj != r.vi {
            prove_d("C11/other-vamms-funding-state-untouched", si(&rec.post.cum[vj]).eq(si(&rec.pre.cum[vj])).and(Cond::from_bool(rec.pre.vamm[vj].next_funding_time == rec.post.vamm[vj].next_funding_time)), format!("{} other-vamm={}", what, vj));
        }
    }
    if !rec.tx.ok {
        return;
    }
    let who = subject(&rec.op);
    let cum = &rec.post.cum[r.vi];
    let p0 = rec.obs.pos.as_ref();
    let p1 = rec.post.pos[&(r.vi, who)].as_ref();
    match &rec.op {
        Op::Open { margin, lev, .. } => {
            if let Some(p1) = p1 {
                // (a flattened record of size zero accrues nothing; its checkpoint is set on the next open)
                if !p1.size.value.is_zero() {
                    prove_d("C11/checkpoint-moves-to-current-after-trade", si(&p1.last_updated_premium_fraction).eq(si(cum)), what.clone());
                }
            }
            if let Some(p0) = p0 {
                if p0.size.value.is_zero() {
                    return;
                }
                let f = spec::funding_owed(p0, &rec.pre.cum[r.vi], d);
                let swaps = rec.tx.msgs_to("vamm");
                let same_side = p1.map(|p| p.direction == p0.direction).unwrap_or(false);
                let first_is_input = swaps.first().map(|m| m.get("swap_input").is_some()).unwrap_or(false);
                if swaps.len() == 1 && first_is_input && same_side && p1.map(|p| crate::sx::s(p.size.value).gt(crate::sx::s(p0.size.value))).map(|c| symrt::decide(c)).unwrap_or(false) {
                    // increase: stored margin rises by the new margin minus the funding owed
                    let n = s(*margin).mul(s(*lev)).div_e(c(d));
                    let add = n.mul(c(d)).div_e(s(*lev));
                    let p1 = p1.unwrap();
                    let expect = s(p0.margin).add(add).sub(f);
                    prove_d("C11/increase-charges-exactly-the-funding-owed", expect.ge(c(0)).implies(s(p1.margin).eq(expect)), what.clone());
                } else if swaps.len() >= 1 && !first_is_input {
                    // reversal (first leg closes the old position): the old position's funding is
                    // part of what the trader gets back / pays in
                    if let (Some(q), true) = (rec.obs.out_spot, r.w.token.is_some()) {
                        let eq_old = spec::equity(p0, spec::pnl(p0, q), f);
                        let new_margin = p1.map(|p| s(p.margin)).unwrap_or(c(0));
                        let fees = match r.w.calc_fee(r.vi, Uint128::zero()) {
                            _ => {
                                let cfgv = r.w.vamm_config(r.vi);
                                let n = s(*margin).mul(s(*lev)).div_e(c(d));
                                n.mul(s(cfgv.toll_ratio)).div_e(c(d)).add(n.mul(s(cfgv.spread_ratio)).div_e(c(d)))
                            }
                        };
                        prove_d(
                            "C11/reversal-settles-the-old-positions-funding",
                            eq_old.ge(c(0)).implies(delta(rec, who).eq(eq_old.sub(new_margin).sub(fees))),
                            what.clone(),
                        );
                    }
                }
            }
        }
        Op::Withdraw { amount, .. } => {
            if let (Some(p0), Some(p1)) = (p0, p1) {
                let f = spec::funding_owed(p0, &rec.pre.cum[r.vi], d);
                prove_d("C11/withdraw-charges-exactly-the-funding-owed", s(p0.margin).sub(s(p1.margin)).eq(s(*amount).add(f)), what.clone());
                prove_d("C11/checkpoint-moves-to-current-after-withdraw", si(&p1.last_updated_premium_fraction).eq(si(cum)), what.clone());
            }
        }
        Op::Close { .. } => {
            if let Some(p1) = p1 {
                prove_d("C11/checkpoint-moves-to-current-after-partial-close", si(&p1.last_updated_premium_fraction).eq(si(cum)), what.clone());
            }
        }
        Op::Deposit { .. } => {
            if let (Some(p0), Some(p1)) = (p0, p1) {
                prove_d("C11/deposit-leaves-the-checkpoint", si(&p1.last_updated_premium_fraction).eq(si(&p0.last_updated_premium_fraction)), what.clone());
            }
        }
        Op::Liquidate { by, .. } => {
            if let (Some(p0), Some(p1)) = (p0, p1) {
                prove_d("C11/partial-liquidation-leaves-the-checkpoint", si(&p1.last_updated_premium_fraction).eq(si(&p0.last_updated_premium_fraction)), what.clone());
            }
            // a FULL liquidation settles the position's funding once, with its sign: what is left
            // of margin + PnL (quote actually exchanged) - funding owed after the liquidator's share
            // goes to the insurance fund (net of recorded bad debt)
            if let (Some(p0), None) = (p0, p1) {
                let q = s(rec.pre.vamm[r.vi].quote_asset_reserve).sub(s(rec.post.vamm[r.vi].quote_asset_reserve)).abs();
                let pnl = if spec::is_long(p0) { q.sub(s(p0.notional)) } else { s(p0.notional).sub(q) };
                let f = match r.charged_at.get(&(r.vi, who)) {
                    Some(at) => si(&r.cum_ledger[r.vi]).sub(si(at)).mul(si(&p0.size)).div_t(c(d)),
                    None => spec::funding_owed(p0, &rec.pre.cum[r.vi], d),
                };
                let eq = spec::equity(p0, pnl, f);
                let liq_gain = delta(rec, by);
                let ins_net = delta(rec, "insurance_fund").add(s(rec.post.eng.bad_debt).sub(s(rec.pre.eng.bad_debt)));
                let remaining = eq.sub(liq_gain);
                if by != &who {
                    prove_d("C11/full-liquidation-charges-exactly-the-funding-owed", remaining.ge(c(0)).implies(ins_net.eq(remaining)), what.clone());
                }
            }
        }
        Op::PayFunding { .. } => {}
    }
}
