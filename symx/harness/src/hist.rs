//! History templates (operation sequences through the public API) shared by several properties.
//! Prefix transactions run concolically (one seeded path, symbolic amounts => an open region of
//! inputs), the transaction(s) under test are explored exhaustively.
use crate::tpl::*;
use crate::world::*;
use cosmwasm_std::Uint128;
use margined_perp::margined_engine::Side;

#[derive(Clone)]
pub struct P {
    pub prop: &'static str,
    pub native: bool,
    pub dec: u8,
    pub fees: bool,
    pub side: Side,
    pub wide: bool,
    pub seed: u64,
    /// partial liquidation ratio: None = 0 (fixture default), Some(true) = symbolic in [0, D]
    pub partial_sym: bool,
    /// explore the prefix exhaustively too (thorough)
    pub full_prefix: bool,
    /// keep position-shaping prefix amounts concrete (deep templates, quick)
    pub concrete_prefix: bool,
    /// leverage of the transaction under test symbolic (else a seeded concrete multiple)
    pub sym_lev: bool,
    /// slippage limit of the transaction under test symbolic (else 0 = none)
    pub sym_lim: bool,
    /// initial / maintenance margin ratios symbolic with maintenance <= initial <= 1
    pub sym_ratios: bool,
    /// carol, the liquidator and the stranger hold small positions opened in an earlier block
    pub bystanders: bool,
    /// oracle price at liquidation time symbolic (both sides of the 10% spread boundary)
    pub sym_oracle: bool,
    /// counter-trade size of liquidation templates symbolic even with a concrete prefix
    pub sym_counter: bool,
    pub fault: Option<(&'static str, u64)>,
    /// the vAMM reads its oracle from the repository's own price feed instead of the mock
    pub real_feed: bool,
    /// the second trader trades the SAME way as alice (alice ends up in profit)
    pub with_trend: bool,
    /// native deployments: a symbolic amount of collateral coins is attached to the engine
    /// messages that need none (ClosePosition, Liquidate, PayFunding, WithdrawMargin)
    pub attached: bool,
    /// native deployments: the coins attached to DepositMargin are a variable of their own
    /// (below / equal to / above the amount argument)
    pub sym_funds: bool,
    /// the pauser pauses the engine right before the transaction(s) under test
    pub paused: bool,
    /// the vAMM's own `insurance_fund` config field points at an outsider account
    pub vamm_ins_outsider: bool,
    /// seed of the symbolic fee ratios: 0 = (1%, 2%), 1 = toll seeded at 0, 2 = spread seeded at 0
    /// (a concolic prefix pins "fee is non-zero" decisions of its witness: the zero-fee regions
    /// have to be the witness of a scenario of their own)
    pub fee_seed: u8,
    /// the owner lowers the base-asset holding cap (to one unit) and the open-interest cap after
    /// the positions were opened, before the transaction(s) under test
    pub caps_lowered: bool,
    /// right before the transaction(s) under test the owner closes the market and opens it again
    /// (vAMM SetOpen false / true)
    pub reopen: bool,
    /// right before the transaction(s) under test the owner sends configuration updates with
    /// out-of-range values (a partial-liquidation ratio above 100%); whatever the engine answers,
    /// the property's clauses are judged on what follows
    pub bad_admin: bool,
    /// before the transaction(s) under test the owner replaces the vAMM's price feed by a freshly
    /// deployed one that reports the current spot price; the old feed is left at a price 30 % away
    /// in the trader's favour
    pub feed_switch: bool,
    /// before the transaction(s) under test the owner re-points the engine at a freshly deployed
    /// fee pool (the old one is no longer a permitted recipient)
    pub pool_switch: bool,
    /// before the transaction(s) under test the owner re-points the vAMM's margin_engine setting at
    /// another account and back again
    pub engine_switch: bool,
    /// a pool priced at 0.1 (reserves 100 : 1000, oracle 0.1): base amounts are ten times the quote
    /// amounts, so quote-to-base round trips lose raw units that a pool priced at 10 hides
    pub cheap: bool,
}

impl P {
    pub fn new(prop: &'static str, side: Side, seed: u64) -> P {
        P { prop, native: false, dec: 9, fees: false, side, wide: false, seed, partial_sym: false, full_prefix: false, concrete_prefix: false, sym_lev: false, sym_lim: false, sym_ratios: false, bystanders: prop == "C10", sym_oracle: false, sym_counter: false, fault: None, real_feed: false, with_trend: false, attached: false, sym_funds: false, paused: false, vamm_ins_outsider: false, fee_seed: 0, caps_lowered: false, reopen: false, bad_admin: false, feed_switch: false, pool_switch: false, engine_switch: false, cheap: false }
    }
    pub fn native(mut self) -> P {
        self.native = true;
        self.dec = 6;
        self
    }
    pub fn fees(mut self) -> P {
        self.fees = true;
        self
    }
    pub fn wide(mut self) -> P {
        self.wide = true;
        self
    }
    pub fn partial(mut self) -> P {
        self.partial_sym = true;
        self
    }
    pub fn full_prefix(mut self) -> P {
        self.full_prefix = true;
        self
    }
    pub fn ratios(mut self) -> P {
        self.sym_ratios = true;
        self
    }
    pub fn lev(mut self) -> P {
        self.sym_lev = true;
        self
    }
    pub fn lim(mut self) -> P {
        self.sym_lim = true;
        self
    }
    /// leverage for the transaction under test
    pub fn tx_lev(&self, name: &str, d: u128, units: u128) -> Uint128 {
        if self.sym_lev {
            leverage(name, d, self.wide, units)
        } else {
            // seeded concrete leverage, including a non-integer multiple
            let k = [units * d, units * d + d / 2, 10 * d, d][(self.seed % 4) as usize];
            Uint128::new(k)
        }
    }
    pub fn tx_lim(&self, name: &str, d: u128) -> Uint128 {
        if self.sym_lim {
            amount(name, d, true, 0)
        } else {
            Uint128::zero()
        }
    }
    pub fn concrete_prefix(mut self) -> P {
        self.concrete_prefix = true;
        self
    }
    pub fn cfg(&self) -> Cfg {
        let mut cfg = Cfg::base(self.native, self.dec);
        cfg.real_feed = self.real_feed;
        let d = cfg.d();
        if self.fees {
            cfg.toll = ratio("toll", d, if self.fee_seed == 1 { 0 } else { d / 100 });
            cfg.spread = ratio("spread", d, if self.fee_seed == 2 { 0 } else { d / 50 });
        }
        if self.partial_sym {
            cfg.partial_ratio = ratio("partial_ratio", d, d / 4);
        }
        if self.cheap {
            cfg.x0 = Uint128::new(100 * d);
            cfg.y0 = Uint128::new(1_000 * d);
            cfg.oracle_price = Uint128::new(d / 10);
        }
        if self.sym_ratios {
            cfg.init_ratio = ratio("init_ratio", d, d / 20);
            cfg.maint_ratio = ratio("maint_ratio", d, d / 20);
            symrt::assume(crate::sx::s(cfg.maint_ratio).le(crate::sx::s(cfg.init_ratio)));
        }
        cfg
    }
    pub fn run(&self) -> Run {
        self.run_cfg(self.cfg())
    }
    pub fn run_cfg(&self, cfg: Cfg) -> Run {
        let mut r = Run::new(cfg, Mon::only(self.prop));
        r.fault = self.fault;
        if self.vamm_ins_outsider {
            for vi in 0..r.w.vamms.len() {
                let t = r.w.vamm_exec(
                    OWNER,
                    vi,
                    &margined_perp::margined_vamm::ExecuteMsg::UpdateConfig {
                        base_asset_holding_cap: None,
                        open_interest_notional_cap: None,
                        toll_ratio: None,
                        spread_ratio: None,
                        fluctuation_limit_ratio: None,
                        margin_engine: None,
                        insurance_fund: Some("outsider".into()),
                        pricefeed: None,
                        spot_price_twap_interval: None,
                    },
                );
                assert!(t.ok, "vamm insurance fund update: {}", t.err);
            }
        }
        if self.attached && self.native {
            let d = r.w.d;
            r.w.attach = Some(crate::sx::var("attach", 0, 1_000 * d, 7 * d));
        }
        if self.bystanders {
            let d = r.w.d;
            let was_full = symrt::is_full();
            symrt::set_full(false);
            for (who, side, m) in [(CAROL, Side::Buy, 3u128), (LIQ, Side::Sell, 2), (EVE, Side::Buy, 1)] {
                let (mg, lv) = (Uint128::new(m * d), Uint128::new(2 * d));
                let f = if self.native { Some(native_open_funds(&r.w, mg, lv)) } else { None };
                r.w.open(who, 0, side, mg, lv, Uint128::zero(), f);
            }
            r.w.next_block(15);
            symrt::set_full(was_full);
        }
        r
    }
    pub fn fault(mut self, site: &'static str, n: u64) -> P {
        self.fault = Some((site, n));
        self
    }
    pub fn attached(mut self) -> P {
        self.attached = true;
        self
    }
    pub fn sym_funds(mut self) -> P {
        self.sym_funds = true;
        self
    }
    pub fn toll0(mut self) -> P {
        self.fees = true;
        self.fee_seed = 1;
        self
    }
    pub fn spread0(mut self) -> P {
        self.fees = true;
        self.fee_seed = 2;
        self
    }
    pub fn caps_lowered(mut self) -> P {
        self.caps_lowered = true;
        self
    }
    pub fn reopen(mut self) -> P {
        self.reopen = true;
        self
    }
    pub fn feed_switch(mut self) -> P {
        self.feed_switch = true;
        self
    }
    pub fn pool_switch(mut self) -> P {
        self.pool_switch = true;
        self
    }
    pub fn engine_switch(mut self) -> P {
        self.engine_switch = true;
        self
    }
    pub fn cheap(mut self) -> P {
        self.cheap = true;
        self
    }
    pub fn bad_admin(mut self) -> P {
        self.bad_admin = true;
        self
    }
    /// owner actions between the prefix and the transaction(s) under test (`reopen`, `bad_admin`);
    /// none of them is judged by itself
    pub fn interlude(&self, r: &mut Run) {
        if !self.reopen && !self.bad_admin && !self.feed_switch && !self.pool_switch && !self.engine_switch {
            return;
        }
        let was_full = symrt::is_full();
        symrt::set_full(false);
        if self.reopen {
            for vi in 0..r.w.vamms.len() {
                r.w.vamm_exec(OWNER, vi, &margined_perp::margined_vamm::ExecuteMsg::SetOpen { open: false });
                r.w.vamm_exec(OWNER, vi, &margined_perp::margined_vamm::ExecuteMsg::SetOpen { open: true });
            }
        }
        if self.pool_switch {
            r.w.switch_fee_pool();
        }
        if self.engine_switch {
            let e = r.w.engine.to_string();
            for vi in 0..r.w.vamms.len() {
                for to in [EVE.to_string(), e.clone()] {
                    let m = margined_perp::margined_vamm::ExecuteMsg::UpdateConfig { base_asset_holding_cap: None, open_interest_notional_cap: None, toll_ratio: None, spread_ratio: None, fluctuation_limit_ratio: None, margin_engine: Some(to), insurance_fund: None, pricefeed: None, spot_price_twap_interval: None };
                    r.w.vamm_exec(OWNER, vi, &m);
                }
            }
        }
        if self.feed_switch {
            if let Ok(spot) = r.w.spot_price(0) {
                // old feed: far from spot, on the side that flatters alice's position
                let stale = if self.side == Side::Buy { spot.multiply_ratio(13u128, 10u128) } else { spot.multiply_ratio(7u128, 10u128) };
                let now = r.w.now();
                r.w.set_oracle(stale, now);
                r.w.switch_feed(spot);
            }
        }
        if self.bad_admin {
            let d = r.w.d;
            let over = [d + d / 50, d + d / 20, d + d / 1000][(self.seed % 3) as usize];
            r.w.update_engine(None, None, Some(Uint128::new(over)), None);
        }
        symrt::set_full(was_full);
    }
    pub fn paused(mut self) -> P {
        self.paused = true;
        self
    }
    pub fn vamm_ins_outsider(mut self) -> P {
        self.vamm_ins_outsider = true;
        self
    }
    pub fn trend(mut self) -> P {
        self.with_trend = true;
        self
    }
    pub fn real_feed(mut self) -> P {
        self.real_feed = true;
        self
    }
    pub fn oracle(mut self) -> P {
        self.sym_oracle = true;
        self
    }
    pub fn counter(mut self) -> P {
        self.sym_counter = true;
        self
    }
    pub fn with_bystanders(mut self) -> P {
        self.bystanders = true;
        self
    }
    pub fn tag(&self) -> String {
        format!(
            "{}{}{}{}{}{}{}",
            if self.side == Side::Buy { "long" } else { "short" },
            if self.native { ".native" } else { "" },
            if self.fees { ".fees" } else { "" },
            if self.partial_sym { ".partial" } else { "" },
            if self.wide { ".wide" } else { "" },
            if self.sym_lev { ".lev" } else { "" },
            if self.sym_lim { ".lim" } else { "" }
        ) + if self.sym_ratios { ".ratios" } else { "" }
            + if self.sym_oracle { ".oracle" } else { "" }
            + if self.sym_counter { ".counter" } else { "" }
            + if self.real_feed { ".realfeed" } else { "" }
            + if self.with_trend { ".trend" } else { "" }
            + if self.attached { ".attached" } else { "" }
            + if self.sym_funds { ".symfunds" } else { "" }
            + ["", ".toll0", ".spread0"][self.fee_seed as usize]
            + if self.caps_lowered { ".caps-lowered" } else { "" }
            + if self.paused { ".paused" } else { "" }
            + if self.vamm_ins_outsider { ".vamm-ins-outsider" } else { "" }
            + if self.reopen { ".reopen" } else { "" }
            + if self.bad_admin { ".bad-admin" } else { "" }
            + if self.feed_switch { ".feed-switch" } else { "" }
            + if self.pool_switch { ".pool-switch" } else { "" }
            + if self.engine_switch { ".engine-switch" } else { "" }
            + if self.cheap { ".cheap-pool" } else { "" }
    }
    fn prefix_mode(&self) {
        symrt::set_full(self.full_prefix);
    }
    /// a prefix amount: symbolic (seeded) or concrete
    fn pre_amount(&self, name: &str, d: u128, units: u128) -> Uint128 {
        if self.concrete_prefix {
            Uint128::new(units * d)
        } else {
            amount(name, d, false, units)
        }
    }
}

fn funds_for(r: &Run, p: &P, margin: Uint128, lev: Uint128) -> Option<Uint128> {
    if p.native {
        Some(native_open_funds(&r.w, margin, lev))
    } else {
        None
    }
}

/// T-open: one fresh OpenPosition, everything symbolic
pub fn t_open(p: P) -> impl Fn() {
    move || {
        let mut r = p.run();
        let d = r.w.d;
        let m = amount("m1", d, p.wide, 20 + (p.seed % 13) as u128);
        let l = p.tx_lev("l1", d, 2 + (p.seed % 7) as u128);
        let lim = p.tx_lim("lim1", d);
        symrt::set_full(true);
        let f = funds_for(&r, &p, m, l);
        r.step(Op::Open { who: ALICE, side: p.side.clone(), margin: m, lev: l, limit: lim, funds: f });
    }
}

/// T-open2: alice opens, then opens again on `second` side (same side = increase; opposite side =
/// reduce / close-out / reverse, whichever arm the amounts select — all arms are explored)
pub fn t_open2(p: P, second_same: bool) -> impl Fn() {
    move || {
        let mut r = p.run();
        let d = r.w.d;
        p.prefix_mode();
        let m1 = p.pre_amount("m1", d, 20 + (p.seed % 13) as u128);
        let l1 = Uint128::new((3 + (p.seed % 5) as u128) * d);
        let f = funds_for(&r, &p, m1, l1);
        let t = r.step(Op::Open { who: ALICE, side: p.side.clone(), margin: m1, lev: l1, limit: Uint128::zero(), funds: f });
        if !t.tx.ok && !p.full_prefix {
            return;
        }
        r.w.next_block(15);
        p.interlude(&mut r);
        symrt::set_full(true);
        let m2 = amount("m2", d, p.wide, 10 + (p.seed % 11) as u128);
        let l2 = p.tx_lev("l2", d, 2 + (p.seed % 3) as u128);
        let lim = p.tx_lim("lim2", d);
        let side2 = if second_same { p.side.clone() } else { opp(&p.side) };
        let f = if p.native && p.sym_funds {
            // the coins attached to the order are a variable of their own: the engine accepts
            // exactly one value, which the oracles compare with margin + both fees (- what the
            // closed leg of a reversal releases)
            Some(amount("nf", d, false, 30))
        } else if second_same {
            funds_for(&r, &p, m2, l2)
        } else {
            None
        };
        r.step(Op::Open { who: ALICE, side: side2, margin: m2, lev: l2, limit: lim, funds: f });
    }
}

/// T-close: alice opens, bob moves the price (either direction by `bob_same`), alice closes
pub fn t_close(p: P, bob_same: bool) -> impl Fn() {
    move || {
        let mut r = p.run();
        let d = r.w.d;
        p.prefix_mode();
        let m1 = p.pre_amount("m1", d, 20 + (p.seed % 13) as u128);
        let l1 = Uint128::new((2 + (p.seed % 5) as u128) * d);
        let f = funds_for(&r, &p, m1, l1);
        let t = r.step(Op::Open { who: ALICE, side: p.side.clone(), margin: m1, lev: l1, limit: Uint128::zero(), funds: f });
        if !t.tx.ok {
            return;
        }
        r.w.next_block(15);
        // the price move is always symbolic (one position-shaping amount)
        let m2 = amount("m2", d, false, 15 + (p.seed % 7) as u128);
        let l2 = Uint128::new((1 + (p.seed % 4) as u128) * d);
        let bside = if bob_same { p.side.clone() } else { opp(&p.side) };
        let f = funds_for(&r, &p, m2, l2);
        let t = r.step(Op::Open { who: BOB, side: bside, margin: m2, lev: l2, limit: Uint128::zero(), funds: f });
        if !t.tx.ok {
            return;
        }
        r.w.next_block(15);
        p.interlude(&mut r);
        symrt::set_full(true);
        let lim = p.tx_lim("qlim", d);
        r.step(Op::Close { who: ALICE, limit: lim });
    }
}

/// T-liq: alice opens 10x, bob trades against her, a third party liquidates. Thresholds
/// (maintenance ratio, liquidation fee, partial ratio) symbolic; prefix amounts per `p`.
pub fn t_liq(p: P, regime: u128) -> impl Fn() {
    move || {
        let mut cfg = p.cfg();
        let d = cfg.d();
        cfg.maint_ratio = ratio("maint", d, d / 20);
        cfg.init_ratio = Uint128::new(d / 10);
        cfg.liq_fee = ratio("liq_fee", d, d / 20);
        symrt::assume(crate::sx::s(cfg.maint_ratio).le(crate::sx::c(d / 10)));
        let mut r = p.run_cfg(cfg);
        p.prefix_mode();
        let m1 = p.pre_amount("m1", d, 25);
        let l1 = Uint128::new(10 * d);
        let f = funds_for(&r, &p, m1, l1);
        let t = r.step(Op::Open { who: ALICE, side: p.side.clone(), margin: m1, lev: l1, limit: Uint128::zero(), funds: f });
        if !t.tx.ok {
            return;
        }
        r.w.next_block(15);
        // regimes (counter-trade size): 5 shallow (ratio ~3%), 7 boundary (~0%), 45 deep under water
        let m2 = if p.sym_counter { amount("m2", d, false, regime) } else { p.pre_amount("m2", d, regime) };
        let l2 = Uint128::new(10 * d);
        let f = funds_for(&r, &p, m2, l2);
        let t = r.step(Op::Open { who: BOB, side: opp(&p.side), margin: m2, lev: l2, limit: Uint128::zero(), funds: f });
        if !t.tx.ok {
            return;
        }
        // let the 15-minute TWAP catch up with the spot price
        r.w.next_block(1000);
        if p.sym_oracle {
            let spot = r.w.spot_price(0).map(|x| crate::sx::x(x)).ok();
            let seed_price = match spot {
                Some(symrt::SymU128::C(v)) => v,
                Some(x) => symrt::witness_of(x).to_u128().unwrap_or(10 * d),
                None => 10 * d,
            };
            // seeds on both sides of the 10% spread boundary
            let seed_price = [seed_price, seed_price * 95 / 100, seed_price * 80 / 100, seed_price * 125 / 100][(p.seed % 4) as usize];
            let price = crate::sx::var("oracle", 1, 1_000 * d, seed_price);
            let now = r.w.now();
            r.w.set_oracle(price, now);
        }
        if p.paused {
            assert!(r.w.engine_exec(OWNER, &margined_perp::margined_engine::ExecuteMsg::SetPause { pause: true }).ok);
        }
        if p.caps_lowered {
            assert!(r.w.update_vamm(0, Some(Uint128::new(d)), Some(Uint128::new(d)), None, None, None, None).ok);
        }
        p.interlude(&mut r);
        symrt::set_full(true);
        let lim = p.tx_lim("qlim", d);
        r.step(Op::Liquidate { by: LIQ, trader: ALICE, limit: lim });
        if p.reopen || p.bad_admin || p.feed_switch {
            // what is left of the position is topped up and closed by its owner, then the
            // counter-party closes
            r.w.next_block(15);
            let top = Uint128::new(100 * d);
            r.step(Op::Deposit { who: ALICE, amount: top, funds: if p.native { Some(top) } else { None } });
            r.step(Op::Close { who: ALICE, limit: Uint128::zero() });
            r.step(Op::Close { who: BOB, limit: Uint128::zero() });
        }
    }
}

/// T-depwd: alice opens, deposits, withdraws
pub fn t_depwd(p: P) -> impl Fn() {
    move || {
        let mut r = p.run();
        let d = r.w.d;
        p.prefix_mode();
        let m1 = p.pre_amount("m1", d, 60);
        let l1 = Uint128::new(2 * d);
        let f = funds_for(&r, &p, m1, l1);
        let t = r.step(Op::Open { who: ALICE, side: p.side.clone(), margin: m1, lev: l1, limit: Uint128::zero(), funds: f });
        if !t.tx.ok {
            return;
        }
        r.w.next_block(15);
        symrt::set_full(true);
        let a = amount("dep", d, p.wide, 10);
        let f = if p.native && p.sym_funds {
            // seeded above the amount; the engine's own comparison forks the other orders
            Some(amount("depf", d, p.wide, if p.seed % 2 == 0 { 15 } else { 10 }))
        } else if p.native {
            Some(a)
        } else {
            None
        };
        r.step(Op::Deposit { who: ALICE, amount: a, funds: f });
        let b = amount("wd", d, p.wide, 5);
        r.step(Op::Withdraw { who: ALICE, amount: b });
    }
}

/// T-fund: alice and bob open, time passes beyond the funding time, the oracle moves, anyone pays
/// funding, then alice acts (`then`: 0 close, 1 withdraw, 2 increase)
pub fn t_fund(p: P, then: u8) -> impl Fn() {
    move || {
        let mut r = p.run();
        let d = r.w.d;
        p.prefix_mode();
        let m1 = p.pre_amount("m1", d, 30 + (p.seed % 9) as u128);
        let l1 = Uint128::new(2 * d);
        let f = funds_for(&r, &p, m1, l1);
        let t = r.step(Op::Open { who: ALICE, side: p.side.clone(), margin: m1, lev: l1, limit: Uint128::zero(), funds: f });
        if !t.tx.ok {
            return;
        }
        r.w.next_block(15);
        let m2 = p.pre_amount("m2", d, 10 + (p.seed % 5) as u128);
        let f = funds_for(&r, &p, m2, l1);
        let bside = if p.with_trend { p.side.clone() } else { opp(&p.side) };
        let t = r.step(Op::Open { who: BOB, side: bside, margin: m2, lev: l1, limit: Uint128::zero(), funds: f });
        if !t.tx.ok {
            return;
        }
        r.w.next_block(86_400);
        let price = crate::sx::var("oracle", 1, 1_000 * d, (if p.seed % 2 == 0 { 9 } else { 11 }) * d);
        let now = r.w.now();
        r.w.set_oracle(price, now);
        symrt::set_full(true);
        let t = r.step(Op::PayFunding { by: EVE });
        if !t.tx.ok {
            return;
        }
        r.w.next_block(15);
        match then {
            0 => {
                r.step(Op::Close { who: ALICE, limit: Uint128::zero() });
            }
            1 => {
                let b = amount("wd", d, false, 1);
                r.step(Op::Withdraw { who: ALICE, amount: b });
            }
            2 => {
                let m3 = amount("m3", d, false, 5);
                let f = funds_for(&r, &p, m3, l1);
                r.step(Op::Open { who: ALICE, side: p.side.clone(), margin: m3, lev: l1, limit: Uint128::zero(), funds: f });
            }
            5 => {
                // increase after the settlement, then close (the whole life of the position spans
                // the settlement and a size change)
                let m3 = amount("m3", d, false, 5);
                let f = funds_for(&r, &p, m3, l1);
                r.step(Op::Open { who: ALICE, side: p.side.clone(), margin: m3, lev: l1, limit: Uint128::zero(), funds: f });
                r.w.next_block(15);
                r.step(Op::Close { who: ALICE, limit: Uint128::zero() });
            }
            6 => {
                // a position opened AFTER the settlement (cumulative fraction already non-zero),
                // reduced and closed
                let m3 = amount("m3", d, false, 12);
                let f = funds_for(&r, &p, m3, l1);
                r.step(Op::Open { who: CAROL, side: p.side.clone(), margin: m3, lev: l1, limit: Uint128::zero(), funds: f });
                r.w.next_block(15);
                let m4 = amount("m4", d, false, 4);
                r.step(Op::Open { who: CAROL, side: opp(&p.side), margin: m4, lev: l1, limit: Uint128::zero(), funds: None });
                r.step(Op::Close { who: CAROL, limit: Uint128::zero() });
            }
            7 => {
                // a position opened AFTER the first settlement, a SECOND settlement with a symbolic
                // oracle price of its own (the two premiums may cancel: cumulative fraction back at
                // exactly zero while the position's checkpoint is not), then close
                let m3 = Uint128::new(12 * d);
                let f = funds_for(&r, &p, m3, l1);
                if !r.step(Op::Open { who: CAROL, side: p.side.clone(), margin: m3, lev: l1, limit: Uint128::zero(), funds: f }).tx.ok {
                    return;
                }
                r.w.next_block(86_400);
                let price2 = crate::sx::var("oracle2", 1, 1_000 * d, (if p.seed % 2 == 0 { 11 } else { 9 }) * d);
                let now = r.w.now();
                r.w.set_oracle(price2, now);
                if !r.step(Op::PayFunding { by: EVE }).tx.ok {
                    return;
                }
                r.w.next_block(15);
                r.step(Op::Close { who: CAROL, limit: Uint128::zero() });
                r.step(Op::Close { who: ALICE, limit: Uint128::zero() });
            }
            3 => {
                // opposite side: reduce or reverse depending on the symbolic size
                let m3 = amount("m3", d, false, 50);
                r.step(Op::Open { who: ALICE, side: opp(&p.side), margin: m3, lev: l1, limit: Uint128::zero(), funds: None });
            }
            _ => {
                let a = amount("dep", d, false, 2);
                let f = if p.native { Some(a) } else { None };
                r.step(Op::Deposit { who: ALICE, amount: a, funds: f });
                r.step(Op::Liquidate { by: LIQ, trader: BOB, limit: Uint128::zero() });
            }
        }
    }
}

/// T-close at 10x: alice 25 x10, bob trades against her with a symbolic size seeded in a regime
/// (3 healthy, 7 around zero equity, 45 deep bad debt), alice closes
pub fn t_close_regime(p: P, units: u128) -> impl Fn() {
    move || {
        let mut r = p.run();
        let d = r.w.d;
        p.prefix_mode();
        let m1 = Uint128::new(25 * d);
        let l1 = Uint128::new(10 * d);
        let f = funds_for(&r, &p, m1, l1);
        let t = r.step(Op::Open { who: ALICE, side: p.side.clone(), margin: m1, lev: l1, limit: Uint128::zero(), funds: f });
        if !t.tx.ok {
            return;
        }
        r.w.next_block(15);
        let m2 = amount("m2", d, false, units);
        let f = funds_for(&r, &p, m2, l1);
        let t = r.step(Op::Open { who: BOB, side: opp(&p.side), margin: m2, lev: l1, limit: Uint128::zero(), funds: f });
        if !t.tx.ok {
            return;
        }
        r.w.next_block(15);
        symrt::set_full(true);
        let lim = p.tx_lim("qlim", d);
        r.step(Op::Close { who: ALICE, limit: lim });
    }
}

/// T-fund-pclose: positions, a funding settlement with a symbolic oracle price, then alice closes
/// under a fluctuation limit (partial close), the limit is lifted and she closes the rest
pub fn t_fund_pclose(p: P) -> impl Fn() {
    t_fund_pclose_liq(p, false)
}

/// as T-fund-pclose, with a liquidation attempt by a third party after the partial close
pub fn t_fund_pclose_liq(p: P, then_liq: bool) -> impl Fn() {
    t_fund_pclose_then(p, if then_liq { 1 } else { 0 })
}

/// `then`: 0 close the rest, 1 a liquidation attempt first, 2 a withdrawal of a symbolic amount
/// and a small increase first (no funding settlement in between: nothing is owed any more)
pub fn t_fund_pclose_then(p: P, then: u8) -> impl Fn() {
    let then_liq = then == 1;
    move || {
        let mut cfg = p.cfg();
        let d = cfg.d();
        cfg.partial_ratio = Uint128::new(d / 4);
        let mut r = p.run_cfg(cfg);
        p.prefix_mode();
        let m1 = Uint128::new((30 + (p.seed % 9) as u128) * d);
        let l1 = Uint128::new(2 * d);
        assert!(r.step(Op::Open { who: ALICE, side: p.side.clone(), margin: m1, lev: l1, limit: Uint128::zero(), funds: None }).tx.ok);
        r.w.next_block(15);
        let m2 = Uint128::new((10 + (p.seed % 5) as u128) * d);
        let bside = if p.with_trend { p.side.clone() } else { opp(&p.side) };
        assert!(r.step(Op::Open { who: BOB, side: bside, margin: m2, lev: l1, limit: Uint128::zero(), funds: None }).tx.ok);
        r.w.next_block(86_400);
        let price = crate::sx::var("oracle", 1, 1_000 * d, (if p.seed % 2 == 0 { 9 } else { 11 }) * d);
        let now = r.w.now();
        r.w.set_oracle(price, now);
        symrt::set_full(true);
        if !r.step(Op::PayFunding { by: EVE }).tx.ok {
            return;
        }
        r.w.next_block(15);
        // a tight band: closing the whole position would leave it, so a fraction is closed
        assert!(r.w.update_vamm(0, None, None, None, None, Some(Uint128::new(d / 1000)), None).ok);
        r.w.next_block(15);
        let t = r.step(Op::Close { who: ALICE, limit: Uint128::zero() });
        if !t.tx.ok {
            return;
        }
        r.w.next_block(1000);
        assert!(r.w.update_vamm(0, None, None, None, None, Some(Uint128::zero()), None).ok);
        if then_liq {
            r.step(Op::Liquidate { by: LIQ, trader: ALICE, limit: Uint128::zero() });
            r.w.next_block(15);
        }
        if then == 2 {
            let b = amount("wd", d, false, 5);
            r.step(Op::Withdraw { who: ALICE, amount: b });
            r.w.next_block(15);
            r.step(Op::Open { who: ALICE, side: p.side.clone(), margin: Uint128::new(2 * d), lev: l1, limit: Uint128::zero(), funds: None });
            r.w.next_block(15);
        }
        r.step(Op::Close { who: ALICE, limit: Uint128::zero() });
    }
}

/// T-fund-liq: alice 10x under water, bob opposite; a funding settlement (symbolic oracle), then
/// alice is liquidated (fully, or partially with a 25% ratio and a small fee), then the bystander
/// bob withdraws and closes
pub fn t_fund_liq(p: P, partial: bool) -> impl Fn() {
    move || {
        let mut cfg = p.cfg();
        let d = cfg.d();
        cfg.init_ratio = Uint128::new(d / 10);
        if partial {
            cfg.partial_ratio = Uint128::new(d / 4);
            cfg.liq_fee = Uint128::new(d / 100);
        }
        let mut r = p.run_cfg(cfg);
        p.prefix_mode();
        let l = Uint128::new(10 * d);
        assert!(r.step(Op::Open { who: ALICE, side: p.side.clone(), margin: Uint128::new(25 * d), lev: l, limit: Uint128::zero(), funds: None }).tx.ok);
        r.w.next_block(15);
        let units = if partial { 5 } else { 45 };
        assert!(r.step(Op::Open { who: BOB, side: opp(&p.side), margin: Uint128::new(units * d), lev: l, limit: Uint128::zero(), funds: None }).tx.ok);
        r.w.next_block(86_400);
        let price = crate::sx::var("oracle", 1, 1_000 * d, (if p.seed % 2 == 0 { 9 } else { 12 }) * d);
        let now = r.w.now();
        r.w.set_oracle(price, now);
        symrt::set_full(true);
        if !r.step(Op::PayFunding { by: EVE }).tx.ok {
            return;
        }
        r.w.next_block(15);
        r.step(Op::Liquidate { by: LIQ, trader: ALICE, limit: Uint128::zero() });
        r.w.next_block(15);
        let b = amount("wd", d, false, 1);
        r.step(Op::Withdraw { who: BOB, amount: b });
        r.step(Op::Close { who: BOB, limit: Uint128::zero() });
    }
}

/// T-liq-prepaid: three traders on the same side; the first closes with a profit that the vault
/// cannot cover (insurance fund pre-pays: prepaid bad debt > 0, vault empty), then the second,
/// now deeply under water, is liquidated by a third party
pub fn t_liq_prepaid(p: P) -> impl Fn() {
    move || {
        let mut cfg = p.cfg();
        let d = cfg.d();
        cfg.maint_ratio = ratio("maint", d, d / 20);
        cfg.init_ratio = Uint128::new(d / 10);
        cfg.liq_fee = ratio("liq_fee", d, d / 20);
        symrt::assume(crate::sx::s(cfg.maint_ratio).le(crate::sx::c(d / 10)));
        let mut r = p.run_cfg(cfg);
        p.prefix_mode();
        let l = Uint128::new(10 * d);
        let u = 18 + (p.seed % 5) as u128;
        for (who, m, lv) in [(ALICE, u, l), (BOB, u, l), (CAROL, 5, Uint128::new(d))] {
            let mg = Uint128::new(m * d);
            let f = funds_for(&r, &p, mg, lv);
            if !r.step(Op::Open { who, side: p.side.clone(), margin: mg, lev: lv, limit: Uint128::zero(), funds: f }).tx.ok {
                return;
            }
            r.w.next_block(15);
        }
        if !r.step(Op::Close { who: ALICE, limit: Uint128::zero() }).tx.ok {
            return;
        }
        r.w.next_block(1000);
        symrt::set_full(true);
        r.step(Op::Liquidate { by: LIQ, trader: BOB, limit: Uint128::zero() });
        // and the remaining trader can still be dealt with afterwards
        r.w.next_block(15);
        r.step(Op::Liquidate { by: LIQ, trader: CAROL, limit: Uint128::zero() });
    }
}

/// T-liq-profitable: a position that is in profit at the vAMM price yet under-margined because of
/// a large funding debt (oracle far from the vAMM price at settlement), liquidated with a
/// symbolic partial-liquidation ratio up to 100%
pub fn t_liq_profitable(p: P) -> impl Fn() {
    move || {
        let mut cfg = p.cfg();
        let d = cfg.d();
        cfg.init_ratio = Uint128::new(d / 10);
        cfg.maint_ratio = Uint128::new(d / 20);
        cfg.liq_fee = ratio("liq_fee", d, d / 100);
        cfg.partial_ratio = ratio("partial_ratio", d, d);
        let mut r = p.run_cfg(cfg);
        p.prefix_mode();
        let l = Uint128::new(2 * d);
        let m1 = Uint128::new(20 * d);
        let f = funds_for(&r, &p, m1, l);
        if !r.step(Op::Open { who: ALICE, side: p.side.clone(), margin: m1, lev: l, limit: Uint128::zero(), funds: f }).tx.ok {
            return;
        }
        r.w.next_block(15);
        // bob trades the same way: alice is in profit
        let m2 = Uint128::new(100 * d);
        let f = funds_for(&r, &p, m2, l);
        if !r.step(Op::Open { who: BOB, side: p.side.clone(), margin: m2, lev: l, limit: Uint128::zero(), funds: f }).tx.ok {
            return;
        }
        r.w.next_block(86_400);
        // the oracle is far on the side that makes alice's side pay
        let seed_price = if p.side == Side::Buy { 3 * d } else { 40 * d };
        let price = crate::sx::var("oracle", 1, 1_000 * d, seed_price);
        let now = r.w.now();
        r.w.set_oracle(price, now);
        if !r.step(Op::PayFunding { by: EVE }).tx.ok {
            return;
        }
        r.w.next_block(1000);
        symrt::set_full(true);
        r.step(Op::Liquidate { by: LIQ, trader: ALICE, limit: Uint128::zero() });
    }
}

/// T-liq-band: alice 10x deep under water; the owner configures a per-block price band (symbolic
/// limit); in the liquidation block another trader first moves the price (inside the band, up to
/// exactly its edge for some limits), then a third party liquidates in that same block
pub fn t_liq_band(p: P, mover_same: bool, units: u128, cheap: bool) -> impl Fn() {
    move || {
        let mut cfg = p.cfg();
        let d = cfg.d();
        cfg.init_ratio = Uint128::new(d / 10);
        cfg.liq_fee = ratio("liq_fee", d, d / 20);
        // `cheap`: a pool priced at 0.1 (reserves 100 : 1000). Below a price of 1 the band edges
        // floor(last x (D +- f) / D) take EVERY integer value as f varies, so for the concrete
        // trades of this template some limit puts an edge exactly on the resulting price
        let sc = if cheap { 10 } else { 1 };
        if cheap {
            cfg.x0 = Uint128::new(100 * d);
            cfg.y0 = Uint128::new(1_000 * d);
            cfg.oracle_price = Uint128::new(d / 10);
        }
        let mut r = p.run_cfg(cfg);
        p.prefix_mode();
        let l = Uint128::new(10 * d);
        let m1 = Uint128::new(25 * d / sc);
        let f = funds_for(&r, &p, m1, l);
        if !r.step(Op::Open { who: ALICE, side: p.side.clone(), margin: m1, lev: l, limit: Uint128::zero(), funds: f }).tx.ok {
            return;
        }
        r.w.next_block(15);
        let m2 = Uint128::new(units * d / sc);
        let f = funds_for(&r, &p, m2, l);
        if !r.step(Op::Open { who: BOB, side: opp(&p.side), margin: m2, lev: l, limit: Uint128::zero(), funds: f }).tx.ok {
            return;
        }
        r.w.next_block(1000);
        let fl = crate::sx::var("fluct", 1, d, d / 20);
        assert!(r.w.update_vamm(0, None, None, None, None, Some(fl), None).ok);
        r.w.next_block(15);
        // the mover's trade in the liquidation block (the limit places the band edge relative to
        // the resulting price; '.counter': the trade size is symbolic as well, so that the price
        // can land exactly on an edge)
        let m3 = if p.sym_counter { amount("m3", d, false, 2 + (p.seed % 4) as u128) } else { Uint128::new((2 + (p.seed % 4) as u128) * d / sc) };
        let l3 = Uint128::new(2 * d);
        let ms = if mover_same { p.side.clone() } else { opp(&p.side) };
        let f = funds_for(&r, &p, m3, l3);
        // explored exhaustively as well: a concolic run would pin "price < edge" where the code
        // only asks for "not beyond the edge", and the on-the-edge case would never be reached
        symrt::set_full(true);
        r.step(Op::Open { who: CAROL, side: ms, margin: m3, lev: l3, limit: Uint128::zero(), funds: f });
        r.step(Op::Liquidate { by: LIQ, trader: ALICE, limit: Uint128::zero() });
        // and again in the next block (the band now refers to the block just ended)
        r.w.next_block(15);
        r.step(Op::Liquidate { by: EVE, trader: ALICE, limit: Uint128::zero() });
    }
}

/// T-dep-close: alice 10x, bob trades against her until her loss exceeds her margin, alice
/// deposits a symbolic amount (so that her equity crosses zero exactly at one value) and closes
pub fn t_dep_close(p: P, units: u128) -> impl Fn() {
    move || {
        let mut cfg = p.cfg();
        let d = cfg.d();
        cfg.init_ratio = Uint128::new(d / 10);
        let mut r = p.run_cfg(cfg);
        p.prefix_mode();
        let l = Uint128::new(10 * d);
        let m1 = Uint128::new(25 * d);
        let f = funds_for(&r, &p, m1, l);
        if !r.step(Op::Open { who: ALICE, side: p.side.clone(), margin: m1, lev: l, limit: Uint128::zero(), funds: f }).tx.ok {
            return;
        }
        r.w.next_block(15);
        let m2 = Uint128::new(units * d);
        let f = funds_for(&r, &p, m2, l);
        if !r.step(Op::Open { who: BOB, side: opp(&p.side), margin: m2, lev: l, limit: Uint128::zero(), funds: f }).tx.ok {
            return;
        }
        r.w.next_block(15);
        symrt::set_full(true);
        let a = amount("dep", d, false, 400);
        let f = if p.native { Some(a) } else { None };
        r.step(Op::Deposit { who: ALICE, amount: a, funds: f });
        r.w.next_block(15);
        r.step(Op::Close { who: ALICE, limit: Uint128::zero() });
    }
}

/// T-prepaid-closes: three traders on the same side at 10x; they close one after the other, each
/// with a profit the vault cannot cover (the insurance fund pre-pays every time, on top of what
/// is already outstanding), the last one after a deposit / withdrawal of symbolic size
pub fn t_prepaid_closes(p: P) -> impl Fn() {
    move || {
        let mut cfg = p.cfg();
        let d = cfg.d();
        cfg.init_ratio = Uint128::new(d / 10);
        let mut r = p.run_cfg(cfg);
        p.prefix_mode();
        let l = Uint128::new(10 * d);
        let u = 18 + (p.seed % 5) as u128;
        // a healthy bystander on the other side at 1x (plenty of free collateral): she withdraws
        // later, when the vault has been drained by the others' profitable closes
        {
            let mg = Uint128::new(20 * d);
            let l1 = Uint128::new(d);
            let f = funds_for(&r, &p, mg, l1);
            r.step(Op::Open { who: EVE, side: opp(&p.side), margin: mg, lev: l1, limit: Uint128::zero(), funds: f });
            r.w.next_block(15);
        }
        for who in [ALICE, BOB, CAROL] {
            let mg = Uint128::new(u * d);
            let f = funds_for(&r, &p, mg, l);
            if !r.step(Op::Open { who, side: p.side.clone(), margin: mg, lev: l, limit: Uint128::zero(), funds: f }).tx.ok {
                return;
            }
            r.w.next_block(15);
        }
        symrt::set_full(true);
        r.step(Op::Close { who: ALICE, limit: Uint128::zero() });
        r.w.next_block(15);
        r.step(Op::Close { who: BOB, limit: Uint128::zero() });
        r.w.next_block(15);
        let a0 = amount("wd0", d, false, 4);
        r.step(Op::Withdraw { who: EVE, amount: a0 });
        let a = amount("wd", d, false, 1);
        r.step(Op::Withdraw { who: CAROL, amount: a });
        r.step(Op::Close { who: CAROL, limit: Uint128::zero() });
    }
}

/// T-pclose: alice opens, bob moves the price, a tight band is configured: alice's ClosePosition
/// closes only the configured fraction (explored exhaustively, fault injection applies to it);
/// then the band is lifted and she closes the rest
pub fn t_pclose(p: P, bob_same: bool) -> impl Fn() {
    move || {
        let mut cfg = p.cfg();
        let d = cfg.d();
        cfg.partial_ratio = Uint128::new(d / 4);
        let mut r = p.run_cfg(cfg);
        p.prefix_mode();
        let l = Uint128::new(2 * d);
        // (a tenth of the amounts on the cheap pool, plus an odd number of raw units)
        let sc = if p.cheap { 10 } else { 1 };
        let odd = if p.cheap { 7 + (p.seed % 90) as u128 } else { 0 };
        let m1 = Uint128::new((30 + (p.seed % 9) as u128) * d / sc + odd);
        let f = funds_for(&r, &p, m1, l);
        if !r.step(Op::Open { who: ALICE, side: p.side.clone(), margin: m1, lev: l, limit: Uint128::zero(), funds: f }).tx.ok {
            return;
        }
        r.w.next_block(15);
        let m2 = Uint128::new((10 + (p.seed % 5) as u128) * d / sc + odd / 2);
        let bs = if bob_same { p.side.clone() } else { opp(&p.side) };
        let f = funds_for(&r, &p, m2, l);
        if !r.step(Op::Open { who: BOB, side: bs, margin: m2, lev: l, limit: Uint128::zero(), funds: f }).tx.ok {
            return;
        }
        r.w.next_block(15);
        assert!(r.w.update_vamm(0, None, None, None, None, Some(Uint128::new(d / 1000)), None).ok);
        r.w.next_block(15);
        symrt::set_full(true);
        let lim = p.tx_lim("qlim", d);
        r.step(Op::Close { who: ALICE, limit: lim });
        r.w.next_block(15);
        symrt::set_full(false);
        assert!(r.w.update_vamm(0, None, None, None, None, Some(Uint128::zero()), None).ok);
        symrt::set_full(true);
        r.step(Op::Close { who: ALICE, limit: Uint128::zero() });
    }
}

/// T-dust: alice opens a long / short of a few raw units at 1x (symbolic, down to 0), bob moves the
/// price far against her in several steps (so that her whole size is worth less than one raw unit
/// of quote on the long side), alice closes; then bob closes
pub fn t_dust(p: P) -> impl Fn() {
    move || {
        let mut r = p.run();
        let d = r.w.d;
        p.prefix_mode();
        let one = Uint128::new(d);
        // (seeded at 10-18 raw units: a size of one raw base unit at the initial price of 10)
        let m1 = crate::sx::var("dust", 0, 400, 10 + (p.seed % 9) as u128);
        let f = funds_for(&r, &p, m1, one);
        symrt::set_full(true);
        if !r.step(Op::Open { who: ALICE, side: p.side.clone(), margin: m1, lev: one, limit: Uint128::zero(), funds: f }).tx.ok {
            return;
        }
        symrt::set_full(false);
        r.w.next_block(15);
        let l = Uint128::new(10 * d);
        // (each counter-trade stays below half the quote reserve: its own TWAP valuation needs the
        // base amount to fit into the reserves of the last snapshot)
        for (who, units) in [(BOB, 45u128), (CAROL, 25), (EVE, 14)] {
            let m2 = Uint128::new(units * d);
            let f = funds_for(&r, &p, m2, l);
            if !r.step(Op::Open { who, side: opp(&p.side), margin: m2, lev: l, limit: Uint128::zero(), funds: f }).tx.ok {
                break;
            }
            r.w.next_block(1000);
        }
        symrt::set_full(true);
        r.step(Op::Close { who: ALICE, limit: Uint128::zero() });
        r.w.next_block(15);
        r.step(Op::Liquidate { by: LIQ, trader: ALICE, limit: Uint128::zero() });
        r.step(Op::Close { who: BOB, limit: Uint128::zero() });
    }
}

/// T-liq-registry: three registered vAMMs; alice is under water on the LAST one; the owner then
/// removes the first one from the insurance fund's registry (which re-orders the stored list);
/// alice must still be liquidatable where she is, and the same on the middle vAMM for bob
pub fn t_liq_registry(p: P) -> impl Fn() {
    move || {
        let mut cfg = p.cfg();
        let d = cfg.d();
        cfg.n_vamms = 3;
        cfg.init_ratio = Uint128::new(d / 10);
        cfg.liq_fee = ratio("liq_fee", d, d / 20);
        let mut r = p.run_cfg(cfg);
        p.prefix_mode();
        let l = Uint128::new(10 * d);
        for (vi, who, counter) in [(2usize, ALICE, CAROL), (1, BOB, EVE)] {
            r.vi = vi;
            let m1 = Uint128::new(25 * d);
            let f = funds_for(&r, &p, m1, l);
            if !r.step(Op::Open { who, side: p.side.clone(), margin: m1, lev: l, limit: Uint128::zero(), funds: f }).tx.ok {
                r.vi = 0;
                return;
            }
            r.w.next_block(15);
            let m2 = Uint128::new(45 * d);
            let f = funds_for(&r, &p, m2, l);
            if !r.step(Op::Open { who: counter, side: opp(&p.side), margin: m2, lev: l, limit: Uint128::zero(), funds: f }).tx.ok {
                r.vi = 0;
                return;
            }
            r.w.next_block(15);
        }
        r.w.next_block(1000);
        let v0 = r.w.vamms[0].to_string();
        let t = r.w.ins_exec(OWNER, &margined_perp::margined_insurance_fund::ExecuteMsg::RemoveVamm { vamm: v0 });
        assert!(t.ok, "remove vamm: {}", t.err);
        symrt::set_full(true);
        r.vi = 2;
        r.step(Op::Liquidate { by: LIQ, trader: ALICE, limit: Uint128::zero() });
        r.vi = 1;
        r.step(Op::Liquidate { by: LIQ, trader: BOB, limit: Uint128::zero() });
        r.vi = 0;
    }
}

/// T-adverse-withdraw: alice 10x, bob trades against her (regimes by `units`), alice tries to
/// withdraw a symbolic amount (free collateral may already be negative), then deposits and
/// withdraws again
pub fn t_adverse_withdraw(p: P, units: u128) -> impl Fn() {
    move || {
        let mut cfg = p.cfg();
        let d = cfg.d();
        cfg.init_ratio = Uint128::new(d / 10);
        let mut r = p.run_cfg(cfg);
        p.prefix_mode();
        let l = Uint128::new(10 * d);
        let m1 = Uint128::new(60 * d);
        let f = funds_for(&r, &p, m1, l);
        if !r.step(Op::Open { who: ALICE, side: p.side.clone(), margin: m1, lev: l, limit: Uint128::zero(), funds: f }).tx.ok {
            return;
        }
        r.w.next_block(15);
        let m2 = Uint128::new(units * d);
        let l2 = Uint128::new(5 * d);
        let f = funds_for(&r, &p, m2, l2);
        if !r.step(Op::Open { who: BOB, side: opp(&p.side), margin: m2, lev: l2, limit: Uint128::zero(), funds: f }).tx.ok {
            return;
        }
        r.w.next_block(1000);
        symrt::set_full(true);
        let a = amount("wd", d, false, 15);
        r.step(Op::Withdraw { who: ALICE, amount: a });
        let b = amount("dep", d, false, 20);
        let f = if p.native { Some(b) } else { None };
        r.step(Op::Deposit { who: ALICE, amount: b, funds: f });
        let c2 = amount("wd2", d, false, 3);
        r.step(Op::Withdraw { who: ALICE, amount: c2 });
    }
}

// ------------------------------------------------------------------------------------------
// generated histories
// ------------------------------------------------------------------------------------------
struct Rng(u64);
impl Rng {
    fn next(&mut self) -> u64 {
        // splitmix64
        self.0 = self.0.wrapping_add(0x9E3779B97F4A7C15);
        let mut z = self.0;
        z = (z ^ (z >> 30)).wrapping_mul(0xBF58476D1CE4E5B9);
        z = (z ^ (z >> 27)).wrapping_mul(0x94D049BB133111EB);
        z ^ (z >> 31)
    }
    fn pick<T: Copy>(&mut self, xs: &[T]) -> T {
        xs[(self.next() % xs.len() as u64) as usize]
    }
    fn chance(&mut self, pct: u64) -> bool {
        self.next() % 100 < pct
    }
}

/// T-gen: a pseudo-random history (operation kinds, traders, sides, sizes, leverages, block gaps,
/// funding settlements with oracle moves, liquidation attempts) determined by (seed, idx); all
/// amounts concrete except the last operation's, which is symbolic and explored exhaustively.
/// Every step runs under the property's monitors / step oracle.
pub fn t_gen(p: P, idx: u64) -> impl Fn() {
    move || {
        let mut g = Rng(p.seed.wrapping_mul(1_000_003).wrapping_add(idx).wrapping_mul(0x2545F4914F6CDD1D) ^ 0xC0FFEE);
        let mut cfg = p.cfg();
        let d = cfg.d();
        cfg.init_ratio = Uint128::new(d / 10);
        cfg.maint_ratio = Uint128::new(d / 20);
        cfg.partial_ratio = Uint128::new(g.pick(&[0, 0, d / 4, d / 2, d]));
        cfg.liq_fee = Uint128::new(g.pick(&[d / 100, d / 20, d / 20]));
        if g.chance(35) && !p.fees {
            cfg.toll = Uint128::new(d / 100);
            cfg.spread = Uint128::new(d / 50);
        }
        let two = g.chance(20);
        if two {
            cfg.n_vamms = 2;
        }
        // further choices come from a second generator so that the histories themselves stay as
        // they were: a zero liquidation fee, and a symbolic slippage limit on the last operation
        let mut g2 = Rng(p.seed.wrapping_mul(7_919).wrapping_add(idx) ^ 0xA77AC4);
        let attach_coins = g2.chance(50);
        let attach_units = g2.pick(&[1u128, 7, 300]);
        if g2.chance(15) {
            cfg.liq_fee = Uint128::zero();
        }
        let sym_limit = g2.chance(30);
        let mut r = p.run_cfg(cfg);
        symrt::set_full(false);
        // (only under the cross-cutting monitors: the per-operation oracles of C04-C07, C11, C12
        // measure wallet deltas of calls that attach nothing)
        if p.native && matches!(p.prop, "C01" | "C02" | "C03" | "C08" | "C10") && attach_coins {
            r.w.attach = Some(Uint128::new(attach_units * d));
        }
        if g.chance(15) {
            let f = Uint128::new(g.pick(&[d / 20, d / 10, d / 5]));
            for vi in 0..r.w.vamms.len() {
                r.w.update_vamm(vi, None, None, None, None, Some(f), None);
            }
        }
        if g.chance(12) {
            let cap = Uint128::new(g.pick(&[5u128, 15, 40]) * d);
            r.w.update_vamm(0, Some(cap), None, None, None, None, None);
            if g.chance(50) {
                r.w.engine_exec(OWNER, &margined_perp::margined_engine::ExecuteMsg::AddWhitelist { address: ALICE.into() });
            }
        }
        let traders = [ALICE, BOB, CAROL];
        let n = 4 + (g.next() % 5) as usize;
        let mut desc = String::new();
        for i in 0..n {
            let last = i + 1 == n;
            if last {
                symrt::set_full(true);
            }
            let who = g.pick(&traders);
            r.vi = if two && g.chance(40) { 1 } else { 0 };
            let vi = r.vi;
            let k = g.next() % 100;
            let op = if k < 40 || i == 0 {
                let side = if g.chance(50) { Side::Buy } else { Side::Sell };
                let units = g.pick(&[1u128, 3, 5, 10, 20, 25, 40, 60]);
                let lev = Uint128::new(g.pick(&[1u128, 2, 2, 5, 10]) * d);
                let margin = if last { amount("gm", d, false, units) } else { Uint128::new(units * d) };
                let has = r.w.position(vi, who).map(|x| !x.size.value.is_zero()).unwrap_or(false);
                let funds = if p.native && !has { Some(native_open_funds(&r.w, margin, lev)) } else { None };
                let limit = if last && sym_limit { amount("glim", d, true, 0) } else { Uint128::zero() };
                Op::Open { who, side, margin, lev, limit, funds }
            } else if k < 52 {
                let limit = if last && sym_limit { amount("glim", d, true, 0) } else { Uint128::zero() };
                Op::Close { who, limit }
            } else if k < 58 {
                let a = if last { amount("gd", d, false, 5) } else { Uint128::new(g.pick(&[1u128, 5, 30]) * d) };
                Op::Deposit { who, amount: a, funds: if p.native { Some(a) } else { None } }
            } else if k < 68 {
                let a = if last { amount("gw", d, false, 2) } else { Uint128::new(g.pick(&[1u128, 2, 10]) * d) };
                Op::Withdraw { who, amount: a }
            } else if k < 82 {
                // (half of the attempts target the trader with the lowest margin ratio, so that
                // liquidations that actually go through are not rare)
                let mut target = who;
                if g2.chance(50) {
                    let mut worst: Option<(bool, u128)> = None; // (negative, magnitude) ordered: most negative first
                    for t in traders.iter() {
                        if let Ok(mr) = r.w.margin_ratio(vi, t) {
                            if let symrt::SymU128::C(v) = crate::sx::x(mr.value) {
                                let key = (mr.negative, v);
                                let lower = match worst {
                                    None => true,
                                    Some((wn, wv)) => match (key.0, wn) {
                                        (true, false) => true,
                                        (false, true) => false,
                                        (true, true) => v > wv,
                                        (false, false) => v < wv,
                                    },
                                };
                                if lower {
                                    worst = Some(key);
                                    target = t;
                                }
                            }
                        }
                    }
                }
                Op::Liquidate { by: g.pick(&[LIQ, EVE]), trader: target, limit: Uint128::zero() }
            } else if k < 94 {
                // a funding settlement: a day passes, the oracle moves
                r.w.next_block(86_400);
                let price = Uint128::new(g.pick(&[3u128, 8, 10, 12, 30]) * d);
                let now = r.w.now();
                r.w.set_oracle(price, now);
                Op::PayFunding { by: EVE }
            } else {
                // configuration / oracle change between operations, then a trade
                if g.chance(50) {
                    let now = r.w.now();
                    r.w.set_oracle(Uint128::new(g.pick(&[6u128, 9, 11, 16]) * d), now);
                } else {
                    r.w.update_engine(Some(Uint128::new(d / 5)), Some(Uint128::new(g.pick(&[d / 20, d / 10, d / 6]))), None, None);
                }
                Op::Close { who, limit: Uint128::zero() }
            };
            desc += &format!("{}@{}{} ", op.name(), vi, if last { "*" } else { "" });
            r.step(op);
            if g.chance(75) {
                r.w.next_block(g.pick(&[15u64, 15, 900, 1000]));
            }
            // owner / pauser actions interleaved with the traders' (second generator): fees, band,
            // partial ratio, liquidation fee, pause and unpause, whitelist
            if !last && g2.chance(22) {
                let was_full = symrt::is_full();
                symrt::set_full(false);
                let ev = g2.next() % 9;
                let name = match ev {
                    0 => {
                        let (t, sp) = g2.pick(&[(0u128, 0u128), (d / 200, d / 50), (d / 50, 0), (0, d / 100)]);
                        r.w.update_vamm(vi, None, None, Some(Uint128::new(t)), Some(Uint128::new(sp)), None, None);
                        "fees"
                    }
                    1 => {
                        r.w.update_vamm(vi, None, None, None, None, Some(Uint128::new(g2.pick(&[0u128, d / 50, d / 10]))), None);
                        "band"
                    }
                    2 => {
                        r.w.update_engine(None, None, Some(Uint128::new(g2.pick(&[0u128, d / 4, d]))), None);
                        "partial-ratio"
                    }
                    3 => {
                        r.w.update_engine(None, None, None, Some(Uint128::new(g2.pick(&[0u128, d / 100, d / 20]))));
                        "liq-fee"
                    }
                    4 => {
                        r.w.engine_exec(OWNER, &margined_perp::margined_engine::ExecuteMsg::SetPause { pause: true });
                        "pause"
                    }
                    5 => {
                        r.w.engine_exec(OWNER, &margined_perp::margined_engine::ExecuteMsg::SetPause { pause: false });
                        "unpause"
                    }
                    6 => {
                        r.w.vamm_exec(OWNER, vi, &margined_perp::margined_vamm::ExecuteMsg::SetOpen { open: false });
                        r.w.vamm_exec(OWNER, vi, &margined_perp::margined_vamm::ExecuteMsg::SetOpen { open: true });
                        "reopen"
                    }
                    7 => {
                        r.w.update_engine(None, None, Some(Uint128::new(d + g2.pick(&[1u128, d / 50, d / 20]))), None);
                        "partial-ratio-out-of-range"
                    }
                    _ => {
                        r.w.engine_exec(OWNER, &margined_perp::margined_engine::ExecuteMsg::AddWhitelist { address: BOB.into() });
                        "whitelist"
                    }
                };
                desc += &format!("[{}] ", name);
                symrt::set_full(was_full);
            }
        }
        r.vi = 0;
        symrt::log_event(format!("history: {}", desc));
    }
}

/// T-outsiders: fees have been collected (fee pool and insurance fund hold collateral, the fee pool
/// lists the collateral token); accounts WITHOUT any role then send the auxiliary contracts'
/// collateral-moving messages (fee pool SendToken naming the owner / a third party / themselves as
/// recipient, insurance fund Withdraw) with symbolic amounts. Whatever the contracts answer, such a
/// transaction may move collateral only between its sender, the engine, the insurance fund and the
/// fee pool, and creates or destroys none
pub fn t_outsiders(p: P) -> impl Fn() {
    move || {
        use margined_perp::margined_fee_pool::ExecuteMsg as PoolExec;
        use margined_perp::margined_insurance_fund::ExecuteMsg as InsExec;
        let mut cfg = p.cfg();
        let d = cfg.d();
        cfg.toll = Uint128::new(d / 50);
        cfg.spread = Uint128::new(d / 100);
        let mut r = p.run_cfg(cfg);
        p.prefix_mode();
        let token = match &r.w.token {
            Some(t) => t.to_string(),
            None => crate::world::DENOM.to_string(),
        };
        let fp = r.w.feepool.clone();
        let ins = r.w.ins.clone();
        r.w.exec(OWNER, &fp, &PoolExec::AddToken { token: token.clone() }, &[]);
        let m1 = Uint128::new(60 * d);
        let l1 = Uint128::new(5 * d);
        let f = funds_for(&r, &p, m1, l1);
        if !r.step(Op::Open { who: ALICE, side: p.side.clone(), margin: m1, lev: l1, limit: Uint128::zero(), funds: f }).tx.ok {
            return;
        }
        r.w.next_block(15);
        symrt::set_full(true);
        let asset = match &r.w.token {
            Some(t) => margined_common::asset::AssetInfo::Token { contract_addr: t.clone() },
            None => margined_common::asset::AssetInfo::NativeToken { denom: crate::world::DENOM.into() },
        };
        let amt = crate::sx::var("amt", 0, 100 * d, d);
        let calls: Vec<(&str, &str, String)> = vec![
            (EVE, "pool.send-to-owner", OWNER.to_string()),
            (ALICE, "pool.send-to-liquidator", LIQ.to_string()),
            (EVE, "pool.send-to-self", EVE.to_string()),
            (BOB, "pool.send-to-owner", OWNER.to_string()),
            (EVE, "ins.withdraw", String::new()),
            (ALICE, "ins.withdraw", String::new()),
        ];
        for (who, what, rcp) in calls {
            let pre = r.w.balances();
            let t = if what.starts_with("pool.") {
                r.w.exec(who, &fp, &PoolExec::SendToken { token: token.clone(), amount: amt, recipient: rcp.clone() }, &[])
            } else {
                r.w.exec(who, &ins, &InsExec::Withdraw { token: asset.clone(), amount: amt }, &[])
            };
            let post = r.w.balances();
            let label = format!("{} sent by {} ok={}", what, who, t.ok);
            let mut tot0 = crate::sx::SInt::zero();
            let mut tot1 = crate::sx::SInt::zero();
            let mut others = vec![];
            for (k, v0) in pre.iter() {
                tot0 = tot0.add(crate::sx::s(*v0));
                tot1 = tot1.add(crate::sx::s(post[k]));
                if !(k == who || k == "engine" || k == "insurance_fund" || k == "fee_pool") {
                    others.push(crate::sx::s(*v0).eq(crate::sx::s(post[k])));
                }
            }
            symrt::prove_d("C03/total-collateral-conserved", tot0.eq(tot1), label.clone());
            symrt::prove_d("C03/only-sender-engine-insurance-feepool-balances-move", crate::sx::Cond::all(others), label);
        }
    }
}

/// T-opp-after-move: alice opens, 15 minutes pass, bob moves the price (spot and the 15-minute
/// TWAP now differ), alice sends an opposite order of symbolic size, then both close
pub fn t_opp_after_move(p: P, bob_same: bool) -> impl Fn() {
    move || {
        let mut r = p.run();
        let d = r.w.d;
        p.prefix_mode();
        let l = Uint128::new(2 * d);
        let m1 = Uint128::new((80 + (p.seed % 40) as u128) * d);
        let f = funds_for(&r, &p, m1, l);
        if !r.step(Op::Open { who: ALICE, side: p.side.clone(), margin: m1, lev: l, limit: Uint128::zero(), funds: f }).tx.ok {
            return;
        }
        r.w.next_block(900);
        let m2 = Uint128::new((20 + (p.seed % 15) as u128) * d);
        let bs = if bob_same { p.side.clone() } else { opp(&p.side) };
        let f = funds_for(&r, &p, m2, l);
        if !r.step(Op::Open { who: BOB, side: bs, margin: m2, lev: l, limit: Uint128::zero(), funds: f }).tx.ok {
            return;
        }
        r.w.next_block(15);
        symrt::set_full(true);
        let m3 = amount("m3", d, false, 90);
        r.step(Op::Open { who: ALICE, side: opp(&p.side), margin: m3, lev: l, limit: Uint128::zero(), funds: None });
        r.w.next_block(15);
        r.step(Op::Close { who: ALICE, limit: Uint128::zero() });
        r.w.next_block(15);
        r.step(Op::Close { who: BOB, limit: Uint128::zero() });
    }
}

/// T-liq2: alice is liquidated partially by one liquidator, then again by a different one in a
/// later block (`same_block`: in the same block)
pub fn t_liq2(p: P, same_block: bool) -> impl Fn() {
    move || {
        let mut cfg = p.cfg();
        let d = cfg.d();
        cfg.init_ratio = Uint128::new(d / 10);
        cfg.partial_ratio = Uint128::new(d / 4);
        cfg.liq_fee = ratio("liq_fee", d, d / 100);
        let mut r = p.run_cfg(cfg);
        p.prefix_mode();
        let l = Uint128::new(10 * d);
        let m1 = Uint128::new(25 * d);
        let f = funds_for(&r, &p, m1, l);
        if !r.step(Op::Open { who: ALICE, side: p.side.clone(), margin: m1, lev: l, limit: Uint128::zero(), funds: f }).tx.ok {
            return;
        }
        r.w.next_block(15);
        let m2 = Uint128::new(5 * d);
        let f = funds_for(&r, &p, m2, l);
        if !r.step(Op::Open { who: BOB, side: opp(&p.side), margin: m2, lev: l, limit: Uint128::zero(), funds: f }).tx.ok {
            return;
        }
        r.w.next_block(1000);
        // the owner raises the margin requirements after the positions were opened: a high
        // (symbolic) maintenance ratio keeps alice liquidatable after the first partial liquidation
        let maint = ratio("maint", d, d / 2);
        assert!(r.w.update_engine(Some(Uint128::new(d)), Some(maint), None, None).ok);
        symrt::set_full(true);
        r.step(Op::Liquidate { by: LIQ, trader: ALICE, limit: Uint128::zero() });
        if !same_block {
            r.w.next_block(15);
        }
        r.step(Op::Liquidate { by: EVE, trader: ALICE, limit: Uint128::zero() });
        r.w.next_block(15);
        r.step(Op::Liquidate { by: CAROL, trader: ALICE, limit: Uint128::zero() });
    }
}

/// T-liq-two-same-block: two traders deep under water; the liquidator opens a position of its own
/// and liquidates both in that same block
pub fn t_liq_two_same_block(p: P) -> impl Fn() {
    move || {
        let mut cfg = p.cfg();
        let d = cfg.d();
        cfg.init_ratio = Uint128::new(d / 10);
        cfg.liq_fee = ratio("liq_fee", d, d / 20);
        let mut r = p.run_cfg(cfg);
        p.prefix_mode();
        let l = Uint128::new(10 * d);
        for who in [ALICE, BOB] {
            let m = Uint128::new(20 * d);
            let f = funds_for(&r, &p, m, l);
            if !r.step(Op::Open { who, side: p.side.clone(), margin: m, lev: l, limit: Uint128::zero(), funds: f }).tx.ok {
                return;
            }
            r.w.next_block(15);
        }
        let m = Uint128::new(60 * d);
        let f = funds_for(&r, &p, m, l);
        if !r.step(Op::Open { who: CAROL, side: opp(&p.side), margin: m, lev: l, limit: Uint128::zero(), funds: f }).tx.ok {
            return;
        }
        r.w.next_block(1000);
        symrt::set_full(true);
        let ml = amount("ml", d, false, 1);
        let f = funds_for(&r, &p, ml, Uint128::new(d));
        r.step(Op::Open { who: LIQ, side: opp(&p.side), margin: ml, lev: Uint128::new(d), limit: Uint128::zero(), funds: f });
        r.step(Op::Liquidate { by: LIQ, trader: ALICE, limit: Uint128::zero() });
        r.step(Op::Liquidate { by: LIQ, trader: BOB, limit: Uint128::zero() });
    }
}

/// T-two-vamms: two registered vAMMs; trades, a funding settlement and a liquidation on one must
/// not touch positions, reserves or the funding state of the other
pub fn t_two_vamms(p: P) -> impl Fn() {
    move || {
        let mut cfg = p.cfg();
        let d = cfg.d();
        cfg.n_vamms = 2;
        cfg.init_ratio = Uint128::new(d / 10);
        let mut r = p.run_cfg(cfg);
        p.prefix_mode();
        let l = Uint128::new(10 * d);
        let on = |r: &mut Run, vi: usize, op: Op| {
            r.vi = vi;
            let rec = r.step(op);
            r.vi = 0;
            rec.tx.ok
        };
        let f = funds_for(&r, &p, Uint128::new(25 * d), l);
        if !on(&mut r, 0, Op::Open { who: ALICE, side: p.side.clone(), margin: Uint128::new(25 * d), lev: l, limit: Uint128::zero(), funds: f }) {
            return;
        }
        let f = funds_for(&r, &p, Uint128::new(20 * d), l);
        if !on(&mut r, 1, Op::Open { who: ALICE, side: opp(&p.side), margin: Uint128::new(20 * d), lev: l, limit: Uint128::zero(), funds: f }) {
            return;
        }
        r.w.next_block(15);
        let f = funds_for(&r, &p, Uint128::new(45 * d), l);
        if !on(&mut r, 0, Op::Open { who: BOB, side: opp(&p.side), margin: Uint128::new(45 * d), lev: l, limit: Uint128::zero(), funds: f }) {
            return;
        }
        let m = amount("m1", d, false, 10);
        let f = funds_for(&r, &p, m, l);
        symrt::set_full(true);
        on(&mut r, 1, Op::Open { who: BOB, side: p.side.clone(), margin: m, lev: l, limit: Uint128::zero(), funds: f });
        r.w.next_block(86_400);
        let now = r.w.now();
        r.w.set_oracle(Uint128::new(9 * d), now);
        on(&mut r, 1, Op::PayFunding { by: EVE });
        r.w.next_block(1000);
        on(&mut r, 0, Op::Liquidate { by: LIQ, trader: ALICE, limit: Uint128::zero() });
        r.w.next_block(15);
        let w = amount("wd", d, false, 1);
        on(&mut r, 1, Op::Withdraw { who: ALICE, amount: w });
        on(&mut r, 1, Op::Close { who: ALICE, limit: Uint128::zero() });
        on(&mut r, 0, Op::Close { who: BOB, limit: Uint128::zero() });
    }
}
