//! Specification-side formulas over the mathematical integers, written from the property
//! statements (margin + PnL - funding, margin ratio as defined for liquidation, ...). Inputs are
//! values observed through the public query API; rounding follows the statements: every division
//! truncates toward zero, as the signed integer type does.
use crate::sx::{c, s, si, Cond, SInt};
use cosmwasm_std::Uint128;
use margined_common::integer::Integer;
use margined_perp::margined_engine::Position;
use margined_perp::margined_vamm::Direction;

pub fn is_long(p: &Position) -> bool {
    p.direction == Direction::AddToAmm
}

/// funding owed by the position: (cumulative fraction - checkpoint) x size / D
pub fn funding_owed(p: &Position, cum: &Integer, d: u128) -> SInt {
    si(cum).sub(si(&p.last_updated_premium_fraction)).mul(si(&p.size)).div_t(c(d))
}

/// PnL of the position if its whole size were exchanged for `out` quote
pub fn pnl(p: &Position, out: Uint128) -> SInt {
    if is_long(p) {
        s(out).sub(s(p.notional))
    } else {
        s(p.notional).sub(s(out))
    }
}

/// margin + pnl - funding (may be negative: bad debt)
pub fn equity(p: &Position, pnl: SInt, funding: SInt) -> SInt {
    s(p.margin).add(pnl).sub(funding)
}

/// margin ratio = equity x D / position notional (truncating)
pub fn ratio(eq: SInt, notional: Uint128, d: u128) -> SInt {
    eq.mul(c(d)).div_t(s(notional))
}

pub struct RatioIn<'a> {
    pub p: &'a Position,
    pub out_spot: Uint128,
    pub out_twap: Uint128,
    pub cum: &'a Integer,
    pub spot_price: Uint128,
    pub oracle: Option<Uint128>,
    pub d: u128,
}

/// the ratio using whichever of spot and TWAP PnL is smaller in magnitude
pub fn ratio_spot_twap(i: &RatioIn) -> SInt {
    let f = funding_owed(i.p, i.cum, i.d);
    let ps = pnl(i.p, i.out_spot);
    let pt = pnl(i.p, i.out_twap);
    let use_twap = ps.abs().gt(pt.abs());
    let rs = ratio(equity(i.p, ps, f), i.out_spot, i.d);
    let rt = ratio(equity(i.p, pt, f), i.out_twap, i.d);
    SInt::ite(use_twap, rt, rs)
}

/// the ratio as defined for liquidation: replaced by the oracle-priced ratio when the vAMM price is
/// at least 10% away from the oracle and that ratio is higher
pub fn ratio_for_liquidation(i: &RatioIn) -> SInt {
    let base = ratio_spot_twap(i);
    match i.oracle {
        None => base,
        Some(o) => {
            let d = i.d;
            let spread = s(i.spot_price).sub(s(o)).mul(c(d)).div_t(s(o));
            let over = spread.abs().ge(c(d / 10));
            let notional_o = s(o).mul(s(i.p.size.value)).div_e(c(d));
            let pnl_o = if is_long(i.p) { notional_o.sub(s(i.p.notional)) } else { s(i.p.notional).sub(notional_o) };
            let f = funding_owed(i.p, i.cum, d);
            let ro = equity(i.p, pnl_o, f).mul(c(d)).div_t(notional_o);
            SInt::ite(over.and(ro.gt(base)), ro, base)
        }
    }
}

/// free collateral of a position whose funding is settled: min(margin, margin + PnL) less the
/// initial-margin requirement (open notional x initial ratio for a long, current position value x
/// initial ratio for a short), PnL being whichever of spot and TWAP PnL is smaller in magnitude
pub fn free_collateral(p: &Position, out_spot: Uint128, out_twap: Uint128, init_ratio: Uint128, d: u128) -> SInt {
    let ps = pnl(p, out_spot);
    let pt = pnl(p, out_twap);
    let use_twap = ps.abs().gt(pt.abs());
    let pn = SInt::ite(use_twap.clone(), pt, ps);
    let value = SInt::ite(use_twap, s(out_twap), s(out_spot));
    let min_coll = SInt::ite(pn.gt(SInt::zero()), s(p.margin), s(p.margin).add(pn));
    let req = if is_long(p) { s(p.notional).mul(s(init_ratio)).div_e(c(d)) } else { value.mul(s(init_ratio)).div_e(c(d)) };
    min_coll.sub(req)
}

pub fn ge0(x: SInt) -> Cond {
    x.ge(SInt::zero())
}
