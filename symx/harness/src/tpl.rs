//! Engine-level runs: operations, snapshots, cross-cutting monitors (C01, C02, C03, C08, C10) and
//! the history templates shared by the properties.
use crate::mon::{self, Dump};
use crate::sx::{c, s, si, var, Cond, SInt};
use crate::world::*;
use cosmwasm_std::Uint128;
use margined_common::integer::Integer;
use margined_perp::margined_engine::{Position, Side, StateResponse as EngineState};
use margined_perp::margined_vamm::StateResponse as VammState;
use std::collections::BTreeMap;
use symrt::prove_d;

#[derive(Clone, Debug)]
pub enum Op {
    Open { who: &'static str, side: Side, margin: Uint128, lev: Uint128, limit: Uint128, funds: Option<Uint128> },
    Close { who: &'static str, limit: Uint128 },
    Liquidate { by: &'static str, trader: &'static str, limit: Uint128 },
    PayFunding { by: &'static str },
    Deposit { who: &'static str, amount: Uint128, funds: Option<Uint128> },
    Withdraw { who: &'static str, amount: Uint128 },
}

impl Op {
    pub fn name(&self) -> &'static str {
        match self {
            Op::Open { .. } => "open",
            Op::Close { .. } => "close",
            Op::Liquidate { .. } => "liquidate",
            Op::PayFunding { .. } => "pay_funding",
            Op::Deposit { .. } => "deposit",
            Op::Withdraw { .. } => "withdraw",
        }
    }
    pub fn sender(&self) -> &'static str {
        match self {
            Op::Open { who, .. } | Op::Close { who, .. } | Op::Deposit { who, .. } | Op::Withdraw { who, .. } => who,
            Op::Liquidate { by, .. } | Op::PayFunding { by } => by,
        }
    }
}

#[derive(Clone, Copy, Default)]
pub struct Mon {
    pub c01: bool,
    pub c02: bool,
    pub c03: bool,
    pub c08: bool,
    pub c10: bool,
    /// property whose step oracle (crate::oracle) runs after every transaction
    pub prop: &'static str,
}
impl Mon {
    pub fn none() -> Mon {
        Mon::default()
    }
    pub fn only(p: &'static str) -> Mon {
        Mon { c01: p == "C01", c02: p == "C02", c03: p == "C03", c08: p == "C08", c10: p == "C10", prop: p }
    }
}

pub const HOLDERS: [&str; 5] = [ALICE, BOB, CAROL, LIQ, EVE];

#[derive(Clone)]
pub struct Snap {
    pub vamm: Vec<VammState>,
    pub pos: BTreeMap<(usize, &'static str), Option<Position>>,
    pub bal: BTreeMap<String, Uint128>,
    pub eng: EngineState,
    pub cum: Vec<Integer>,
    pub dump: Option<Dump>,
    pub height: u64,
    pub time: u64,
}

pub struct StepRec {
    pub op: Op,
    pub pre: Snap,
    pub post: Snap,
    pub tx: Tx,
    pub what: String,
    pub obs: crate::oracle::PreObs,
}

pub struct Run {
    pub w: World,
    pub mon: Mon,
    pub vi: usize,
    pub steps: usize,
    /// fault to inject into every transaction executed in full (exhaustive) mode: (site, n-th call)
    pub fault: Option<(&'static str, u64)>,
    /// cumulative premium fraction at which each trader's position was last charged funding
    /// (harness-side ledger: successful Open / Close / Withdraw by the trader, full liquidation)
    pub charged_at: BTreeMap<(usize, &'static str), Integer>,
    /// a funding settlement has succeeded earlier in this history
    pub funding_settled: bool,
    /// cumulative premium fraction per vAMM as of the last successful settlement (harness-side
    /// ledger: only PayFunding may move it; the oracles measure funding owed against this value,
    /// not against whatever the engine reports at the time)
    pub cum_ledger: Vec<Integer>,
    /// life-time ledger of a position (C04): wallet balance when the trader was last flat, the
    /// quote reserve changes and the fees its owner's own trades caused since, and whether the
    /// ledger is still meaningful (no funding settlement, liquidation or bad debt in between)
    pub life: BTreeMap<(usize, &'static str), Life>,
}

#[derive(Clone)]
pub struct Life {
    pub wallet_start: Uint128,
    pub dx: SInt,
    pub fees: SInt,
    /// funding charged to the position at its owner's actions, from the harness's own ledgers
    /// ((cumulative fraction at the last settlement - fraction at the last charge) x size held)
    pub funding: SInt,
    pub valid: bool,
}

pub fn deploy_or_drop(cfg: Cfg) -> World {
    match World::deploy(cfg) {
        Ok(w) => w,
        Err(e) => {
            symrt::log_event(format!("deploy rejected: {}", e));
            std::panic::panic_any(symrt::InfeasiblePath)
        }
    }
}

impl Run {
    pub fn new(cfg: Cfg, mon: Mon) -> Run {
        let w = deploy_or_drop(cfg);
        let cum_ledger = (0..w.vamms.len()).map(|i| if w.cfg.vamm_engine_is_owner { Integer::zero() } else { w.cum_premium(i) }).collect();
        Run { w, mon, vi: 0, steps: 0, fault: None, charged_at: BTreeMap::new(), funding_settled: false, cum_ledger, life: BTreeMap::new() }
    }
    pub fn snap(&self) -> Snap {
        let w = &self.w;
        let mut pos = BTreeMap::new();
        for vi in 0..w.vamms.len() {
            for t in HOLDERS.iter() {
                pos.insert((vi, *t), w.position(vi, t));
            }
        }
        Snap {
            vamm: (0..w.vamms.len()).map(|i| w.vamm_state(i)).collect(),
            pos,
            bal: w.balances(),
            eng: w.engine_state(),
            cum: (0..w.vamms.len()).map(|i| w.cum_premium(i)).collect(),
            dump: if self.mon.c08 { Some(w.dump()) } else { None },
            height: w.height(),
            time: w.now(),
        }
    }
    pub fn exec(&mut self, op: &Op) -> Tx {
        let vi = self.vi;
        match op.clone() {
            Op::Open { who, side, margin, lev, limit, funds } => self.w.open(who, vi, side, margin, lev, limit, funds),
            Op::Close { who, limit } => self.w.close(who, vi, limit),
            Op::Liquidate { by, trader, limit } => self.w.liquidate(by, vi, trader, limit),
            Op::PayFunding { by } => self.w.pay_funding(by, vi),
            Op::Deposit { who, amount, funds } => self.w.deposit(who, vi, amount, funds),
            Op::Withdraw { who, amount } => self.w.withdraw(who, vi, amount),
        }
    }
    /// execute one engine transaction with the enabled monitors
    pub fn step(&mut self, op: Op) -> StepRec {
        self.steps += 1;
        let pre = self.snap();
        let obs = crate::oracle::pre_obs(self, &op, &pre);
        let armed = match self.fault {
            Some((site, n)) if symrt::is_full() => {
                arm_fault(site, n);
                true
            }
            _ => false,
        };
        let tx = self.exec(&op);
        let fault_hit = if armed { disarm_fault() } else { false };
        if !tx.ok {
            symrt::log_event(format!("failed-tx message tree: {}", tx.log.join(" > ")));
        }
        let post = self.snap();
        if fault_hit {
            prove_d(
                "C08/sub-message-failure-fails-the-whole-transaction",
                Cond::from_bool(!tx.ok),
                format!("{} fault at {:?}", op.name(), self.fault.unwrap()),
            );
        }
        if armed {
            symrt::log_event(format!("fault {:?} hit={}", self.fault.unwrap(), fault_hit));
        }
        self.w.observe();
        let what = format!("{}:{}", op.name(), if tx.ok { "ok" } else { "failed" });
        let rec = StepRec { op, pre, post, tx, what, obs };
        self.monitors(&rec);
        crate::oracle::step_oracle(self, &rec);
        self.life_step(&rec);
        // funding ledger: which cumulative fraction the sender's position is settled up to
        if rec.tx.ok && matches!(rec.op, Op::PayFunding { .. }) {
            self.funding_settled = true;
            self.cum_ledger[self.vi] = rec.post.cum[self.vi];
        }
        if rec.tx.ok {
            let who = rec.op.sender();
            match &rec.op {
                Op::Open { .. } | Op::Close { .. } | Op::Withdraw { .. } => {
                    // (the harness's own cumulative fraction, not the engine's report)
                    self.charged_at.insert((self.vi, who), self.cum_ledger[self.vi]);
                }
                _ => {}
            }
        }
        rec
    }

    /// C04 life-time ledger and its obligation: over a complete round trip (flat -> ... -> flat,
    /// through any number of increases, reductions and partial closes) the trader's wallet changes
    /// by exactly minus the quote its own trades moved into the vAMM, minus the fees it was charged
    fn life_step(&mut self, rec: &StepRec) {
        if self.mon.prop != "C04" || self.w.attach.is_some() {
            return;
        }
        let vi = self.vi;
        match &rec.op {
            Op::Withdraw { who, .. } if rec.tx.ok => {
                // a withdrawal settles the funding accrued so far (the amount itself returns to the
                // wallet and is part of the wallet delta)
                let key = (vi, *who);
                let f = self.funding_due(&key, rec);
                if let Some(l) = self.life.get_mut(&key) {
                    l.funding = l.funding.add(f);
                }
            }
            Op::Liquidate { trader, .. } if rec.tx.ok => {
                if let Some(l) = self.life.get_mut(&(vi, *trader)) {
                    l.valid = false;
                }
            }
            Op::Open { who, .. } | Op::Close { who, .. } if rec.tx.ok => {
                let key = (vi, *who);
                let was_flat = rec.pre.pos[&key].as_ref().map(|p| p.size.value.is_zero()).unwrap_or(true);
                if was_flat {
                    self.life.insert(key, Life { wallet_start: rec.pre.bal[*who], dx: SInt::zero(), fees: SInt::zero(), funding: SInt::zero(), valid: true });
                }
                let bad_debt_moved = !symrt::decide(s(rec.pre.eng.bad_debt).eq(s(rec.post.eng.bad_debt)));
                let dx = s(rec.post.vamm[vi].quote_asset_reserve).sub(s(rec.pre.vamm[vi].quote_asset_reserve));
                let fee = s(rec.post.bal["fee_pool"]).sub(s(rec.pre.bal["fee_pool"])).add(s(rec.post.bal["insurance_fund"]).sub(s(rec.pre.bal["insurance_fund"])));
                let fdue = if was_flat { SInt::zero() } else { self.funding_due(&key, rec) };
                if let Some(l) = self.life.get_mut(&key) {
                    l.dx = l.dx.add(dx);
                    l.fees = l.fees.add(fee);
                    l.funding = l.funding.add(fdue);
                    if bad_debt_moved {
                        l.valid = false;
                    }
                    let now_flat = rec.post.pos[&key].as_ref().map(|p| p.size.value.is_zero()).unwrap_or(true);
                    if now_flat && l.valid {
                        let wallet = s(rec.post.bal[*who]).sub(s(l.wallet_start));
                        prove_d("C04/round-trip-pays-what-the-vamm-exchanged-minus-fees-and-funding", wallet.eq(l.dx.neg().sub(l.fees).sub(l.funding)), format!("{} trader={}", rec.what, who));
                    }
                    if now_flat {
                        self.life.remove(&key);
                    }
                }
            }
            _ => {}
        }
    }

    /// funding the position of `key` owes at this transaction according to the harness's ledgers:
    /// (cumulative fraction as of the last settlement - fraction at its last charge) x size held
    /// before the transaction, truncated like the engine's signed division
    fn funding_due(&self, key: &(usize, &'static str), rec: &StepRec) -> SInt {
        let p0 = match &rec.pre.pos[key] {
            Some(p) if !p.size.value.is_zero() => p,
            _ => return SInt::zero(),
        };
        let at = match self.charged_at.get(key) {
            Some(a) => *a,
            None => return SInt::zero(),
        };
        si(&self.cum_ledger[key.0]).sub(si(&at)).mul(si(&p0.size)).div_t(c(self.w.d))
    }

    fn monitors(&self, r: &StepRec) {
        let d = self.w.d;
        let what = &r.what;
        if self.mon.c01 {
            for vi in 0..self.w.vamms.len() {
                mon::c01_step(&r.pre.vamm[vi], &r.post.vamm[vi], r.tx.ok, self.w.cfg.y0, d, what);
            }
        }
        if self.mon.c02 {
            for vi in 0..self.w.vamms.len() {
                let mut sum = SInt::zero();
                for t in HOLDERS.iter() {
                    sum = sum.add(mon::size_of(&r.post.pos[&(vi, *t)]));
                }
                prove_d("C02/sum-of-position-sizes=vamm-net-position", sum.eq(si(&r.post.vamm[vi].total_position_size)), what.clone());
            }
        }
        if self.mon.c03 {
            c03_step(r);
        }
        if self.mon.c08 {
            c08_step(r);
        }
        if self.mon.c10 {
            let sender = r.op.sender();
            let named = if let Op::Liquidate { trader, .. } = &r.op { Some(*trader) } else { None };
            for ((vi, t), p0) in r.pre.pos.iter() {
                if *t == sender && !matches!(r.op, Op::Liquidate { .. } | Op::PayFunding { .. }) {
                    continue;
                }
                if Some(*t) == named {
                    continue;
                }
                mon::pos_unchanged("C10/other-traders-position-untouched", p0, &r.post.pos[&(*vi, *t)], &format!("{} sender={} other={}", what, sender, t));
            }
        }
    }
}

/// C03: conservation and permitted recipients for one transaction
pub fn c03_step(r: &StepRec) {
    let what = &r.what;
    let mut tot0 = SInt::zero();
    let mut tot1 = SInt::zero();
    for (k, v0) in r.pre.bal.iter() {
        tot0 = tot0.add(s(*v0));
        tot1 = tot1.add(s(r.post.bal[k]));
    }
    prove_d("C03/total-collateral-conserved", tot0.eq(tot1), what.clone());
    let sender = r.op.sender();
    let allowed = |k: &str| k == sender || k == "engine" || k == "insurance_fund" || k == "fee_pool";
    let mut others = vec![];
    for (k, v0) in r.pre.bal.iter() {
        if !allowed(k) {
            others.push(s(*v0).eq(s(r.post.bal[k])));
        }
    }
    prove_d("C03/only-sender-engine-insurance-feepool-balances-move", Cond::all(others), what.clone());
    if let Op::Liquidate { trader, by, .. } = &r.op {
        if trader != by {
            prove_d("C03/liquidated-trader-receives-nothing", s(r.pre.bal[*trader]).eq(s(r.post.bal[*trader])), what.clone());
        }
    }
    if !r.tx.ok {
        mon::balances_unchanged("C03/failed-transaction-moves-nothing", &r.pre.bal, &r.post.bal, what);
    }
}

fn ends_with(k: &[u8], suffix: &[u8]) -> bool {
    k.len() >= suffix.len() && &k[k.len() - suffix.len()..] == suffix
}

/// C08: no in-flight residue after any transaction; a failed transaction changes nothing anywhere
pub fn c08_step(r: &StepRec) {
    let what = &r.what;
    let post = r.post.dump.as_ref().expect("dump");
    let mut residue = vec![];
    for (k, _) in post["engine"].iter() {
        for key in [&b"tmp-swap"[..], &b"sent-funds"[..], &b"tmp-liquidator"[..]] {
            if ends_with(k, key) {
                residue.push(String::from_utf8_lossy(key).to_string());
            }
        }
    }
    prove_d("C08/no-in-flight-residue", Cond::from_bool(residue.is_empty()), format!("{} residue={:?}", what, residue));
    if !r.tx.ok {
        mon::dump_unchanged("C08/failed-transaction-leaves-all-storage-unchanged", r.pre.dump.as_ref().unwrap(), post, what);
        mon::balances_unchanged("C08/failed-transaction-leaves-all-balances-unchanged", &r.pre.bal, &r.post.bal, what);
    }
}

// ------------------------------------------------------------------------------------------
// variables
// ------------------------------------------------------------------------------------------
/// amounts that can succeed with the fixture balances: [0, 2^40 * D]; `wide` = whole range
pub fn amount(name: &str, d: u128, wide: bool, seed_units: u128) -> Uint128 {
    let hi = if wide { symrt::VAR_MAX } else { (1u128 << 40) * d };
    var(name, 0, hi, seed_units * d)
}
pub fn leverage(name: &str, d: u128, wide: bool, seed_units: u128) -> Uint128 {
    let hi = if wide { symrt::VAR_MAX } else { 1000 * d };
    var(name, 0, hi, seed_units * d)
}
pub fn ratio(name: &str, d: u128, seed: u128) -> Uint128 {
    var(name, 0, d, seed)
}

pub fn opp(side: &Side) -> Side {
    match side {
        Side::Buy => Side::Sell,
        Side::Sell => Side::Buy,
    }
}

/// funds a native-collateral trader must attach to an OpenPosition that opens/increases:
/// margin + fees on the notional (computed the way the engine does)
pub fn native_open_funds(w: &World, margin: Uint128, lev: Uint128) -> Uint128 {
    let d = Uint128::new(w.d);
    let notional = match symrt::catch(|| margin.checked_mul(lev).ok().and_then(|x| x.checked_div(d).ok())) {
        Ok(Some(n)) => n,
        _ => return margin,
    };
    let fee = match w.calc_fee(0, notional) {
        Ok(f) => f,
        Err(_) => return margin,
    };
    match symrt::catch(|| margin.checked_add(fee.spread_fee).ok().and_then(|x| x.checked_add(fee.toll_fee).ok())) {
        Ok(Some(t)) => t,
        _ => margin,
    }
}

pub fn _unused(_: SInt) {
    let _ = c(0);
}
