//! C10 — address-aliasing scenarios. The engine stores a position under a hash of the vAMM address
//! and the trader address written one after the other, so (vamm ++ prefix, rest-of-trader) names
//! the same slot as (vamm, trader). An account whose address is a suffix of the victim's (or that
//! starts with the tail of the vAMM's address) sends every engine message with the correspondingly
//! crafted `vamm` string; whatever the engine answers, the victim's stored position (read under
//! the real vAMM) must be exactly as before, and so must every other holder's.
use super::sc;
use crate::mon;
use crate::sx::var;
use crate::tpl::*;
use crate::world::*;
use crate::{Scenario, Tier};
use cosmwasm_std::{Coin, Uint128};
use cw20::Cw20ExecuteMsg;
use margined_perp::margined_engine::{ExecuteMsg as EngineExec, Side};

/// victim alice holds a position on vamm0; `split`: 0 = attacker "ice" + vamm "<vamm0>al",
/// 1 = attacker "<last char of vamm0>alice" + vamm "<vamm0 without its last char>"
fn alias(native: bool, split: u8, opk: u8, victim_side: Side) -> impl Fn() {
    alias_u(native, split, opk, victim_side, false)
}

/// `under_water`: the victim's position is deep under water (liquidatable) when the aliased call
/// arrives
fn alias_u(native: bool, split: u8, opk: u8, victim_side: Side, under_water: bool) -> impl Fn() {
    alias_c(native, split, opk, victim_side, under_water, 0)
}

/// `partial`: the engine's partial-liquidation / partial-close ratio in quarters (0 = the default
/// 0, 4 = exactly 100%)
fn alias_c(native: bool, split: u8, opk: u8, victim_side: Side, under_water: bool, partial: u128) -> impl Fn() {
    move || {
        let mut cfg = Cfg::base(native, if native { 6 } else { 9 });
        let d = cfg.d();
        cfg.init_ratio = Uint128::new(d / 10);
        cfg.partial_ratio = Uint128::new(d * partial / 4);
        let mut r = Run::new(cfg, Mon::none());
        symrt::set_full(false);
        let lev = Uint128::new(2 * d);
        let (m, vlev) = if under_water { (Uint128::new(25 * d), Uint128::new(10 * d)) } else { (Uint128::new(60 * d), lev) };
        let f = if native { Some(native_open_funds(&r.w, m, vlev)) } else { None };
        assert!(r.step(Op::Open { who: ALICE, side: victim_side.clone(), margin: m, lev: vlev, limit: Uint128::zero(), funds: f }).tx.ok);
        if under_water {
            r.w.next_block(15);
            let mm = Uint128::new(45 * d);
            let f = if native { Some(native_open_funds(&r.w, mm, vlev)) } else { None };
            assert!(r.step(Op::Open { who: EVE, side: opp(&victim_side), margin: mm, lev: vlev, limit: Uint128::zero(), funds: f }).tx.ok);
            r.w.next_block(1000);
        }
        // bystanders
        for (who, side) in [(BOB, Side::Sell), (CAROL, Side::Buy)] {
            let mm = Uint128::new(5 * d);
            let f = if native { Some(native_open_funds(&r.w, mm, lev)) } else { None };
            assert!(r.step(Op::Open { who, side, margin: mm, lev, limit: Uint128::zero(), funds: f }).tx.ok);
        }
        r.w.next_block(15);
        let v0 = r.w.vamms[0].to_string();
        let (attacker, crafted): (String, String) = if split == 0 {
            ("ice".to_string(), format!("{}al", v0))
        } else if split == 2 {
            // an account whose name differs from the victim's only in letter case, on the real vAMM
            ("Alice".to_string(), v0.clone())
        } else if split == 3 {
            ("ALICE".to_string(), v0.clone())
        } else {
            let (head, tail) = v0.split_at(v0.len() - 1);
            (format!("{}alice", tail), head.to_string())
        };
        // the attacker holds collateral (and, for cw20, has approved the engine)
        let give = Uint128::new(500 * d);
        // (a cw20 token refuses to credit a mixed-case account: such an attacker has no collateral
        // and can only send the messages that need none)
        let funded = r.w.transfer(EVE, &addr(&attacker), give).ok;
        assert!(funded || split >= 2);
        if let Some(t) = r.w.token.clone() {
            let e = r.w.engine.to_string();
            let ok = r.w.exec(&attacker, &t, &Cw20ExecuteMsg::IncreaseAllowance { spender: e, amount: Uint128::new(u128::MAX >> 8), expires: None }, &[]).ok;
            assert!(ok || split >= 2);
        }
        symrt::set_full(true);
        let a = var("amt", 0, 400 * d, 25 * d);
        let pre = r.snap();
        let funds: Vec<Coin> = if native { vec![Coin { denom: DENOM.into(), amount: a }] } else { vec![] };
        let e = r.w.engine.clone();
        let (name, msg, who): (&str, EngineExec, String) = match opk {
            0 => ("deposit", EngineExec::DepositMargin { vamm: crafted.clone(), amount: a }, attacker.clone()),
            1 => ("withdraw", EngineExec::WithdrawMargin { vamm: crafted.clone(), amount: a }, attacker.clone()),
            2 => ("close", EngineExec::ClosePosition { vamm: crafted.clone(), quote_asset_limit: Uint128::zero() }, attacker.clone()),
            3 => ("open", EngineExec::OpenPosition { vamm: crafted.clone(), side: Side::Buy, margin_amount: a, leverage: lev, base_asset_limit: Uint128::zero() }, attacker.clone()),
            4 => ("open-opposite", EngineExec::OpenPosition { vamm: crafted.clone(), side: Side::Sell, margin_amount: a, leverage: lev, base_asset_limit: Uint128::zero() }, attacker.clone()),
            // a third party names the aliased pair as the trader to liquidate
            _ => ("liquidate", EngineExec::Liquidate { vamm: crafted.clone(), trader: attacker.clone(), quote_asset_limit: Uint128::zero() }, LIQ.to_string()),
        };
        let with_funds = matches!(opk, 0 | 3 | 4);
        let t = r.w.exec(&who, &e, &msg, if with_funds { &funds } else { &[] });
        symrt::log_event(format!("alias {} by {} vamm={} ok={} err={}", name, who, crafted, t.ok, crate::sx::norm(&t.err)));
        let post = r.snap();
        let what = format!("{} sent by {} with vamm string {:?} (real vamm {:?})", name, who, crafted, v0);
        for ((vi, tr), p0) in pre.pos.iter() {
            mon::pos_unchanged("C10/aliased-address-cannot-touch-another-traders-position", p0, &post.pos[&(*vi, *tr)], &format!("{} holder={}", what, tr));
        }
    }
}

/// "Queries never change any state": every query of all five contracts (with existing and
/// non-existing subjects) on a staged deployment; raw storage of every contract and all balances
/// must be bytewise identical afterwards
fn queries_change_nothing(native: bool) -> impl Fn() {
    move || {
        use serde_json::{json, Value};
        let mut cfg = Cfg::base(native, if native { 6 } else { 9 });
        cfg.real_feed = true;
        let d = cfg.d();
        cfg.init_ratio = Uint128::new(d / 10);
        cfg.toll = Uint128::new(d / 100);
        cfg.spread = Uint128::new(d / 100);
        let mut r = Run::new(cfg, Mon::none());
        symrt::set_full(false);
        let lev = Uint128::new(2 * d);
        let m = Uint128::new(60 * d);
        let f = if native { Some(native_open_funds(&r.w, m, lev)) } else { None };
        assert!(r.step(Op::Open { who: ALICE, side: Side::Buy, margin: m, lev, limit: Uint128::zero(), funds: f }).tx.ok);
        r.w.next_block(15);
        let mb = Uint128::new(20 * d);
        let f = if native { Some(native_open_funds(&r.w, mb, lev)) } else { None };
        assert!(r.step(Op::Open { who: BOB, side: Side::Sell, margin: mb, lev, limit: Uint128::zero(), funds: f }).tx.ok);
        r.w.next_block(86_400);
        let now = r.w.now();
        r.w.set_oracle(Uint128::new(9 * d), now);
        r.step(Op::PayFunding { by: EVE });
        r.w.next_block(900);
        symrt::set_full(true);
        let dump0 = r.w.dump();
        let bal0 = r.w.balances();
        let (v0, e, ins, fp, feed) = (r.w.vamms[0].clone(), r.w.engine.clone(), r.w.ins.clone(), r.w.feepool.clone(), r.w.feed.clone());
        let vs = v0.to_string();
        let amt = crate::sx::var("q", 0, 400 * d, 3 * d).to_string();
        let mut n_ok = 0;
        let mut n_err = 0;
        let mut ask = |w: &World, to: &cosmwasm_std::Addr, q: Value| {
            match w.q_raw(to, serde_json::to_vec(&q).unwrap()) {
                Ok(_) => n_ok += 1,
                Err(_) => n_err += 1,
            }
        };
        for trader in [ALICE, BOB, CAROL, "nobody"] {
            for q in [
                json!({"position": {"vamm": vs, "trader": trader}}),
                json!({"all_positions": {"trader": trader}}),
                json!({"unrealized_pnl": {"vamm": vs, "trader": trader, "calc_option": "spot_price"}}),
                json!({"unrealized_pnl": {"vamm": vs, "trader": trader, "calc_option": "twap"}}),
                json!({"unrealized_pnl": {"vamm": vs, "trader": trader, "calc_option": "oracle"}}),
                json!({"margin_ratio": {"vamm": vs, "trader": trader}}),
                json!({"free_collateral": {"vamm": vs, "trader": trader}}),
                json!({"balance_with_funding_payment": {"trader": trader}}),
                json!({"position_with_funding_payment": {"vamm": vs, "trader": trader}}),
                json!({"is_whitelisted": {"address": trader}}),
            ] {
                ask(&r.w, &e, q);
            }
        }
        for q in [json!({"config": {}}), json!({"state": {}}), json!({"get_pauser": {}}), json!({"get_whitelist": {}}), json!({"cumulative_premium_fraction": {"vamm": vs}}), json!({"cumulative_premium_fraction": {"vamm": "nobody"}})] {
            ask(&r.w, &e, q);
        }
        for dir in ["add_to_amm", "remove_from_amm"] {
            for q in [
                json!({"input_price": {"direction": dir, "amount": amt}}),
                json!({"output_price": {"direction": dir, "amount": amt}}),
                json!({"input_amount": {"direction": dir, "amount": amt}}),
                json!({"output_amount": {"direction": dir, "amount": amt}}),
                json!({"input_twap": {"direction": dir, "amount": amt}}),
                json!({"output_twap": {"direction": dir, "amount": amt}}),
                json!({"is_over_fluctuation_limit": {"direction": dir, "base_asset_amount": amt}}),
            ] {
                ask(&r.w, &v0, q);
            }
        }
        for q in [
            json!({"config": {}}), json!({"state": {}}), json!({"get_owner": {}}), json!({"spot_price": {}}), json!({"twap_price": {"interval": 900}}), json!({"twap_price": {"interval": 1_000_000}}),
            json!({"underlying_price": {}}), json!({"underlying_twap_price": {"interval": 900}}), json!({"calc_fee": {"quote_asset_amount": amt}}), json!({"is_over_spread_limit": {}}),
        ] {
            ask(&r.w, &v0, q);
        }
        for q in [json!({"config": {}}), json!({"get_owner": {}}), json!({"is_vamm": {"vamm": vs}}), json!({"is_vamm": {"vamm": "nobody"}}), json!({"get_all_vamm": {}}), json!({"get_all_vamm_status": {}}), json!({"get_vamm_status": {"vamm": vs}})] {
            ask(&r.w, &ins, q);
        }
        for q in [json!({"config": {}}), json!({"get_owner": {}}), json!({"is_token": {"token": DENOM}}), json!({"get_token_length": {}}), json!({"get_token_list": {}})] {
            ask(&r.w, &fp, q);
        }
        for q in [json!({"config": {}}), json!({"get_owner": {}}), json!({"get_price": {"key": "USD"}}), json!({"get_previous_price": {"key": "USD", "num_round_back": "1"}}), json!({"get_twap_price": {"key": "USD", "interval": 900}}), json!({"get_price": {"key": "XYZ"}})] {
            ask(&r.w, &feed, q);
        }
        symrt::log_event(format!("queries answered={} refused={}", n_ok, n_err));
        let what = format!("{} queries answered, {} refused", n_ok, n_err);
        symrt::prove_d("C10/queries-were-exercised", crate::sx::Cond::from_bool(n_ok >= 60), what.clone());
        symrt::prove_d("C10/queries-change-no-storage", crate::sx::Cond::from_bool(dump0 == r.w.dump()), what.clone());
        mon::balances_unchanged("C10/queries-change-no-balance", &bal0, &r.w.balances(), &what);
    }
}

pub fn scenarios(_seed: u64) -> Vec<Scenario> {
    let mut v = vec![];
    let d = "position keys are a hash of vamm ++ trader: an account whose address is a suffix of the victim's sends each engine message with the crafted vamm string that aliases the victim's slot; every stored position must be unchanged";
    let ops = ["deposit", "withdraw", "close", "open", "open-opposite", "liquidate"];
    for (native, cn) in [(false, "cw20"), (true, "native")] {
        for split in 0..2u8 {
            for (opk, on) in ops.iter().enumerate() {
                let tier = if split == 0 || opk == 0 { Tier::Quick } else { Tier::Thorough };
                v.push(sc("C10", tier, &format!("c10.alias.{}.split{}.{}", on, split, cn), d, 100, 60, alias(native, split, opk as u8, if opk % 2 == 0 { Side::Buy } else { Side::Sell })));
            }
        }
    }
    for (native, cn) in [(false, "cw20"), (true, "native")] {
        for split in 0..2u8 {
            for (opk, on) in [(5usize, "liquidate"), (2, "close"), (1, "withdraw")] {
                let tier = if split == 0 { Tier::Quick } else { Tier::Thorough };
                v.push(sc("C10", tier, &format!("c10.alias.{}.split{}.{}.victim-under-water", on, split, cn), d, 100, 60, alias_u(native, split, opk as u8, Side::Buy, true)));
            }
        }
    }
    let dc = "an account whose name differs from the victim's only in letter case ('Alice' / 'ALICE' vs 'alice') sends each engine message on the real vAMM (and is named in a Liquidate); every stored position of the other accounts must be unchanged";
    for (native, cn) in [(false, "cw20"), (true, "native")] {
        for (opk, on) in ops.iter().enumerate() {
            let tier = if !native || opk == 4 { Tier::Quick } else { Tier::Thorough };
            v.push(sc("C10", tier, &format!("c10.alias.{}.case.{}", on, cn), dc, 100, 60, alias(native, 2, opk as u8, if opk % 2 == 0 { Side::Buy } else { Side::Sell })));
            v.push(sc("C10", Tier::Thorough, &format!("c10.alias.{}.upper.{}", on, cn), dc, 100, 60, alias(native, 3, opk as u8, Side::Buy)));
        }
        v.push(sc("C10", Tier::Quick, &format!("c10.alias.close.case.{}.victim-under-water", cn), dc, 100, 60, alias_u(native, 2, 2, Side::Buy, true)));
    }
    for (native, cn) in [(false, "cw20"), (true, "native")] {
        for (opk, on) in ops.iter().enumerate() {
            for (pq, pn) in [(4u128, "ratio100"), (1, "ratio25")] {
                let tier = if pq == 4 && !native { Tier::Quick } else { Tier::Thorough };
                v.push(sc("C10", tier, &format!("c10.alias.{}.split0.{}.{}", on, cn, pn), d, 100, 60, alias_c(native, 0, opk as u8, Side::Buy, false, pq)));
            }
        }
        v.push(sc("C10", Tier::Quick, &format!("c10.alias.close.split0.{}.ratio100.victim-under-water", cn), d, 100, 60, alias_c(native, 0, 2, Side::Buy, true, 4)));
        v.push(sc("C10", Tier::Quick, &format!("c10.alias.liquidate.split0.{}.ratio100.victim-under-water", cn), d, 100, 60, alias_c(native, 0, 5, Side::Buy, true, 4)));
    }
    for (native, cn) in [(false, "cw20"), (true, "native")] {
        v.push(sc("C10", Tier::Quick, &format!("c10.queries.{}", cn), "every query of all five contracts on a staged deployment (positions, a funding settlement, fees): raw storage and balances bytewise identical afterwards", 50, 60, queries_change_nothing(native)));
    }
    v
}
