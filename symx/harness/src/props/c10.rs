//! C10 — address-aliasing scenarios. The engine stores a position under a hash of the vAMM address
//! and the trader address written one after the other, so (vamm ++ prefix, rest-of-trader) names
//! the same slot as (vamm, trader). An account whose address is a suffix of the victim's (or that
//! starts with the tail of the vAMM's address) sends every engine message with the correspondingly
//! crafted `vamm` string; whatever the engine answers, the victim's stored position (read under
//! the real vAMM) must be exactly as before, and so must every other holder's.
use super::sc;
use crate::mon;
use crate::sx::var;
use crate::tpl::*;
use crate::world::*;
use crate::{Scenario, Tier};
use cosmwasm_std::{Coin, Uint128};
use cw20::Cw20ExecuteMsg;
use margined_perp::margined_engine::{ExecuteMsg as EngineExec, Side};

/// victim alice holds a position on vamm0; `split`: 0 = attacker "ice" + vamm "<vamm0>al",
/// 1 = attacker "<last char of vamm0>alice" + vamm "<vamm0 without its last char>"
fn alias(native: bool, split: u8, opk: u8, victim_side: Side) -> impl Fn() {
    move || {
        let mut cfg = Cfg::base(native, if native { 6 } else { 9 });
        let d = cfg.d();
        cfg.init_ratio = Uint128::new(d / 10);
        let mut r = Run::new(cfg, Mon::none());
        symrt::set_full(false);
        let lev = Uint128::new(2 * d);
        let m = Uint128::new(60 * d);
        let f = if native { Some(native_open_funds(&r.w, m, lev)) } else { None };
        assert!(r.step(Op::Open { who: ALICE, side: victim_side.clone(), margin: m, lev, limit: Uint128::zero(), funds: f }).tx.ok);
        // bystanders
        for (who, side) in [(BOB, Side::Sell), (CAROL, Side::Buy)] {
            let mm = Uint128::new(5 * d);
            let f = if native { Some(native_open_funds(&r.w, mm, lev)) } else { None };
            assert!(r.step(Op::Open { who, side, margin: mm, lev, limit: Uint128::zero(), funds: f }).tx.ok);
        }
        r.w.next_block(15);
        let v0 = r.w.vamms[0].to_string();
        let (attacker, crafted): (String, String) = if split == 0 {
            ("ice".to_string(), format!("{}al", v0))
        } else {
            let (head, tail) = v0.split_at(v0.len() - 1);
            (format!("{}alice", tail), head.to_string())
        };
        // the attacker holds collateral (and, for cw20, has approved the engine)
        let give = Uint128::new(500 * d);
        assert!(r.w.transfer(EVE, &addr(&attacker), give).ok);
        if let Some(t) = r.w.token.clone() {
            let e = r.w.engine.to_string();
            assert!(r.w.exec(&attacker, &t, &Cw20ExecuteMsg::IncreaseAllowance { spender: e, amount: Uint128::new(u128::MAX >> 8), expires: None }, &[]).ok);
        }
        symrt::set_full(true);
        let a = var("amt", 0, 400 * d, 25 * d);
        let pre = r.snap();
        let funds: Vec<Coin> = if native { vec![Coin { denom: DENOM.into(), amount: a }] } else { vec![] };
        let e = r.w.engine.clone();
        let (name, msg, who): (&str, EngineExec, String) = match opk {
            0 => ("deposit", EngineExec::DepositMargin { vamm: crafted.clone(), amount: a }, attacker.clone()),
            1 => ("withdraw", EngineExec::WithdrawMargin { vamm: crafted.clone(), amount: a }, attacker.clone()),
            2 => ("close", EngineExec::ClosePosition { vamm: crafted.clone(), quote_asset_limit: Uint128::zero() }, attacker.clone()),
            3 => ("open", EngineExec::OpenPosition { vamm: crafted.clone(), side: Side::Buy, margin_amount: a, leverage: lev, base_asset_limit: Uint128::zero() }, attacker.clone()),
            4 => ("open-opposite", EngineExec::OpenPosition { vamm: crafted.clone(), side: Side::Sell, margin_amount: a, leverage: lev, base_asset_limit: Uint128::zero() }, attacker.clone()),
            // a third party names the aliased pair as the trader to liquidate
            _ => ("liquidate", EngineExec::Liquidate { vamm: crafted.clone(), trader: attacker.clone(), quote_asset_limit: Uint128::zero() }, LIQ.to_string()),
        };
        let with_funds = matches!(opk, 0 | 3 | 4);
        let t = r.w.exec(&who, &e, &msg, if with_funds { &funds } else { &[] });
        symrt::log_event(format!("alias {} by {} vamm={} ok={} err={}", name, who, crafted, t.ok, crate::sx::norm(&t.err)));
        let post = r.snap();
        let what = format!("{} sent by {} with vamm string {:?} (real vamm {:?})", name, who, crafted, v0);
        for ((vi, tr), p0) in pre.pos.iter() {
            mon::pos_unchanged("C10/aliased-address-cannot-touch-another-traders-position", p0, &post.pos[&(*vi, *tr)], &format!("{} holder={}", what, tr));
        }
    }
}

pub fn scenarios(_seed: u64) -> Vec<Scenario> {
    let mut v = vec![];
    let d = "position keys are a hash of vamm ++ trader: an account whose address is a suffix of the victim's sends each engine message with the crafted vamm string that aliases the victim's slot; every stored position must be unchanged";
    let ops = ["deposit", "withdraw", "close", "open", "open-opposite", "liquidate"];
    for (native, cn) in [(false, "cw20"), (true, "native")] {
        for split in 0..2u8 {
            for (opk, on) in ops.iter().enumerate() {
                let tier = if split == 0 || opk == 0 { Tier::Quick } else { Tier::Thorough };
                v.push(sc("C10", tier, &format!("c10.alias.{}.split{}.{}", on, split, cn), d, 100, 60, alias(native, split, opk as u8, if opk % 2 == 0 { Side::Buy } else { Side::Sell })));
            }
        }
    }
    v
}
