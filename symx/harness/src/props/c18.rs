//! C18 — time-weighted prices stay within the prices actually observed.
//! Timestamps / block schedules are enumerated (u64: not solver-quantified, the weights are
//! concrete per schedule); swap amounts and submitted oracle prices are symbolic, so the bound
//! claims are proved for all of them.
use super::c01::{swap_msg, Kind};
use super::sc;
use crate::sx::{c, s, var, Cond, SInt};
use crate::tpl::*;
use crate::world::*;
use crate::{Scenario, Tier};
use cosmwasm_std::{Timestamp, Uint128};
use margined_perp::margined_pricefeed::QueryMsg as FeedQuery;
use margined_perp::margined_vamm::Direction;
use serde::Deserialize;
use symrt::prove_d;

/// a block: seconds since the previous block, trades in it (kind, direction, seed units; the
/// amount is symbolic when `sym` is set)
type Block = (u64, Vec<(Kind, Direction, u128, bool)>);

fn minmax(ps: &[Uint128]) -> (SInt, SInt) {
    let mut lo = s(ps[0]);
    let mut hi = s(ps[0]);
    for p in &ps[1..] {
        lo = lo.min(s(*p));
        hi = hi.max(s(*p));
    }
    (lo, hi)
}

thread_local! {
    /// fluctuation limit of the vAMM-alone deployments in thousandths (0 = none)
    static FLUCT_PM: std::cell::Cell<u128> = std::cell::Cell::new(0);
}

/// the schedule on a vAMM with a per-block price band of `pm` thousandths (the swaps are sent with
/// can_go_over_fluctuation, as the engine's closing trades are: a block's later trade may leave it)
fn with_band(pm: u128, f: impl Fn()) -> impl Fn() {
    move || {
        FLUCT_PM.with(|c| c.set(pm));
        f();
        FLUCT_PM.with(|c| c.set(0));
    }
}

fn vamm_twap(blocks: Vec<Block>, intervals: Vec<u64>, tail: u64) -> impl Fn() {
    vamm_twap_ns(blocks, intervals, tail, vec![])
}

/// `nanos[i]`: sub-second part added at block i (the last entry applies to the tail block)
fn vamm_twap_ns(blocks: Vec<Block>, intervals: Vec<u64>, tail: u64, nanos: Vec<u64>) -> impl Fn() {
    move || {
        let mut cfg = Cfg::base(false, 9);
        cfg.vamm_engine_is_owner = true;
        let d = cfg.d();
        cfg.fluct = Uint128::new(d / 1000 * FLUCT_PM.with(|c| c.get()));
        let mut w = deploy_or_drop(cfg);
        symrt::set_full(true);
        // segments: (start time, end-of-block spot price)
        let mut segs: Vec<(u64, Uint128)> = vec![(w.now(), w.spot_price(0).unwrap())];
        let mut blocks_with_trades = 0u64;
        let mut n = 0;
        for (bi, (dt, trades)) in blocks.iter().enumerate() {
            match nanos.get(bi) {
                Some(ns) => w.next_block_ns(*dt, *ns),
                None => w.next_block(*dt),
            }
            let mut any = false;
            for (k, dir, units, sym) in trades.iter() {
                n += 1;
                let amt = if *sym { var(&format!("a{}", n), 0, 400 * d, units * d) } else { Uint128::new(units * d) };
                let t = w.vamm_exec(OWNER, 0, &swap_msg(*k, dir.clone(), amt, Uint128::zero(), true));
                any |= t.ok;
            }
            if any {
                blocks_with_trades += 1;
                let p = w.spot_price(0).unwrap();
                if segs.last().unwrap().0 == w.now() {
                    segs.last_mut().unwrap().1 = p;
                } else {
                    segs.push((w.now(), p));
                }
            }
        }
        if tail > 0 {
            match nanos.last() {
                // a whole-second step whose sub-second part is smaller than the previous block's
                Some(ns) if !nanos.is_empty() => {
                    w.next_block(tail - 1);
                    w.advance_time(0);
                    let back = *ns;
                    w.app.update_block(|b| b.time = b.time.plus_nanos(1_000_000_000 - back));
                }
                _ => w.next_block(tail),
            }
        }
        let now = w.now();
        // one snapshot per block that traded (+ the initial one)
        let dump = w.dump();
        let snaps = dump["vamm0"].iter().filter(|(k, _)| k.windows(16).any(|x| x == b"reserve_snapshot") && !k.windows(24).any(|x| x == b"reserve_snapshot_counter")).count() as u64;
        prove_d("C18/one-reserve-snapshot-per-traded-block", Cond::from_bool(snaps == blocks_with_trades + 1), format!("snapshots={} traded-blocks={}", snaps, blocks_with_trades));
        for iv in intervals.iter() {
            let tw = match w.twap_price(0, *iv) {
                Ok(t) => t,
                Err(e) => {
                    prove_d("C18/twap-query-answers", Cond::False, format!("interval={} {}", iv, crate::sx::norm(&e)));
                    continue;
                }
            };
            // prices in effect during [now - iv, now] (whole history if shorter)
            let from = now.saturating_sub(*iv);
            let mut inwin: Vec<Uint128> = vec![];
            for (i, (start, p)) in segs.iter().enumerate() {
                let end = segs.get(i + 1).map(|x| x.0).unwrap_or(u64::MAX);
                if end > from && *start <= now {
                    inwin.push(*p);
                }
            }
            let (lo, hi) = minmax(&inwin);
            let what = format!("interval={} history={}s segments-in-window={}", iv, now - segs[0].0, inwin.len());
            prove_d("C18/vamm-twap-within-end-of-block-prices-in-window", lo.le(s(tw)).and(s(tw).le(hi)), what.clone());
            if inwin.len() == 1 {
                prove_d("C18/vamm-twap-equals-spot-when-unchanged", s(tw).eq(s(inwin[0])), what);
            }
        }
    }
}

/// two trades in two blocks, the vAMM is closed, time passes, it is re-opened (in a later block or
/// in the closing block), then TWAP queries whose windows start before / at / after the re-opening
fn vamm_twap_reopen(closed_for: u64, seed: u64) -> impl Fn() {
    move || {
        let mut cfg = Cfg::base(false, 9);
        cfg.vamm_engine_is_owner = true;
        let d = cfg.d();
        let mut w = deploy_or_drop(cfg);
        symrt::set_full(true);
        let g = 15 + (seed % 30);
        let mut segs: Vec<(u64, Uint128)> = vec![(w.now(), w.spot_price(0).unwrap())];
        for (i, units) in [20u128, 35].iter().enumerate() {
            w.next_block(g);
            let amt = var(&format!("a{}", i + 1), 0, 400 * d, units * d);
            let t = w.vamm_exec(OWNER, 0, &swap_msg(Kind::Input, Direction::AddToAmm, amt, Uint128::zero(), true));
            if t.ok {
                segs.push((w.now(), w.spot_price(0).unwrap()));
            }
        }
        w.next_block(g);
        assert!(w.vamm_exec(OWNER, 0, &margined_perp::margined_vamm::ExecuteMsg::SetOpen { open: false }).ok);
        if closed_for > 0 {
            w.next_block(closed_for);
        }
        assert!(w.vamm_exec(OWNER, 0, &margined_perp::margined_vamm::ExecuteMsg::SetOpen { open: true }).ok);
        w.next_block(100);
        let now = w.now();
        for iv in [50u64, 100, 101, closed_for.max(1), closed_for + 100, closed_for + 100 + g, closed_for + 150 + 2 * g, 100_000] {
            let tw = match w.twap_price(0, iv) {
                Ok(t) => t,
                Err(e) => {
                    prove_d("C18/twap-query-answers", Cond::False, format!("interval={} {}", iv, crate::sx::norm(&e)));
                    continue;
                }
            };
            let from = now.saturating_sub(iv);
            let mut inwin: Vec<Uint128> = vec![];
            for (i, (start, p)) in segs.iter().enumerate() {
                let end = segs.get(i + 1).map(|x| x.0).unwrap_or(u64::MAX);
                if end > from && *start <= now {
                    inwin.push(*p);
                }
            }
            let (lo, hi) = minmax(&inwin);
            let what = format!("closed-for={} interval={} segments-in-window={}", closed_for, iv, inwin.len());
            prove_d("C18/vamm-twap-within-end-of-block-prices-in-window", lo.le(s(tw)).and(s(tw).le(hi)), what.clone());
            if inwin.len() == 1 {
                prove_d("C18/vamm-twap-equals-spot-when-unchanged", s(tw).eq(s(inwin[0])), what);
            }
        }
    }
}

#[derive(Deserialize, Clone, Debug)]
struct PriceData {
    round_id: Uint128,
    price: Uint128,
    timestamp: Timestamp,
}

/// the repository's price feed: symbolic prices at enumerated non-decreasing timestamps <= now
fn feed_twap(offsets: Vec<u64>, intervals: Vec<u64>, tail: u64) -> impl Fn() {
    feed_twap_b(offsets, intervals, tail, vec![])
}

/// `batches`: sizes of consecutive AppendMultiplePrice batches the submissions are grouped into
/// (each batch is sent at the time of its last entry; entries carry their own timestamps); empty =
/// every price is sent by its own AppendPrice
fn feed_twap_b(offsets: Vec<u64>, intervals: Vec<u64>, tail: u64, batches: Vec<usize>) -> impl Fn() {
    move || {
        let mut cfg = Cfg::base(false, 9);
        cfg.real_feed = true;
        let d = cfg.d();
        let mut w = deploy_or_drop(cfg);
        symrt::set_full(true);
        // (the deployment itself submitted one price at its block time)
        let mut rounds: Vec<(u64, Uint128)> = vec![(w.now(), w.cfg.oracle_price)];
        let mut pending: Vec<(u64, Uint128)> = vec![];
        let mut bi = 0usize;
        for (i, off) in offsets.iter().enumerate() {
            w.next_block(*off);
            let p = var(&format!("p{}", i), 0, 10_000 * d, (8 + 3 * i as u128) * d);
            let t = w.now();
            if batches.is_empty() {
                assert!(w.set_oracle(p, t).ok);
            } else {
                pending.push((t, p));
                if pending.len() >= batches[bi % batches.len()] || i + 1 == offsets.len() {
                    let f = w.feed.clone();
                    let m = margined_perp::margined_pricefeed::ExecuteMsg::AppendMultiplePrice { key: "USD".into(), prices: pending.iter().map(|x| x.1).collect(), timestamps: pending.iter().map(|x| x.0).collect() };
                    assert!(w.exec(OWNER, &f, &m, &[]).ok);
                    pending.clear();
                    bi += 1;
                }
            }
            rounds.push((t, p));
        }
        if tail > 0 {
            w.next_block(tail);
        }
        let now = w.now();
        // latest and n-rounds-back return exactly the submitted values
        let last = rounds.last().unwrap();
        match w.q::<PriceData, _>(&w.feed, &FeedQuery::GetPrice { key: "USD".into() }) {
            Ok(pd) => {
                prove_d("C18/feed-latest-returns-the-submitted-price", s(pd.price).eq(s(last.1)).and(Cond::from_bool(pd.timestamp.seconds() == last.0 && pd.round_id == Uint128::new(rounds.len() as u128))), format!("rounds={}", rounds.len()));
            }
            Err(e) => mon_fail("C18/feed-latest-answers", e),
        }
        for back in 0..rounds.len() {
            let want = &rounds[rounds.len() - 1 - back];
            match w.q::<PriceData, _>(&w.feed, &FeedQuery::GetPreviousPrice { key: "USD".into(), num_round_back: Uint128::new(back as u128) }) {
                Ok(pd) => {
                    prove_d("C18/feed-n-rounds-back-returns-the-submitted-price", s(pd.price).eq(s(want.1)).and(Cond::from_bool(pd.timestamp.seconds() == want.0)), format!("back={}", back));
                }
                Err(e) => mon_fail("C18/feed-n-rounds-back-answers", format!("back={} {}", back, e)),
            }
        }
        for iv in intervals.iter() {
            let tw = match w.q::<Uint128, _>(&w.feed, &FeedQuery::GetTwapPrice { key: "USD".into(), interval: *iv }) {
                Ok(t) => t,
                Err(e) => {
                    mon_fail("C18/feed-twap-answers", format!("interval={} {}", iv, e));
                    continue;
                }
            };
            let from = now.saturating_sub(*iv);
            let mut inwin: Vec<Uint128> = vec![];
            for (i, (start, p)) in rounds.iter().enumerate() {
                let end = rounds.get(i + 1).map(|x| x.0).unwrap_or(u64::MAX);
                if end > from && *start <= now {
                    inwin.push(*p);
                }
            }
            let (lo, hi) = minmax(&inwin);
            prove_d("C18/feed-twap-within-submitted-prices-overlapping-window", lo.le(s(tw)).and(s(tw).le(hi)), format!("interval={} rounds-in-window={}", iv, inwin.len()));
        }
        let _ = c(0);
    }
}

fn mon_fail(label: &str, e: String) {
    prove_d(label, Cond::False, crate::sx::norm(&e));
}

pub fn scenarios(seed: u64) -> Vec<Scenario> {
    use Direction::*;
    use Kind::*;
    let mut v = vec![];
    let dv = "vAMM alone; enumerated block schedule (gaps, several trades per block incl. an extreme intermediate price), swap amounts symbolic; TwapPrice for intervals shorter / equal / longer than the history and ending inside a segment must lie within the end-of-block spot prices in effect during the window";
    let g = 15 + (seed % 30);
    let scheds: Vec<(&str, Vec<Block>, Vec<u64>, u64)> = vec![
        ("two-blocks", vec![(g, vec![(Input, AddToAmm, 20, true)]), (3 * g, vec![(Input, RemoveFromAmm, 35, true)])], vec![1, g, 3 * g, 3 * g + 1, 4 * g, 4 * g + 50, 900, 100_000], 50),
        ("spike-inside-block", vec![(g, vec![(Input, AddToAmm, 10, false)]), (2 * g, vec![(Input, AddToAmm, 300, true), (Input, RemoveFromAmm, 290, true)]), (g, vec![(Output, AddToAmm, 1, true)])], vec![g, 2 * g, 3 * g + 5, 900, 50_000], 5),
        ("same-block-query", vec![(g, vec![(Input, AddToAmm, 20, true)]), (g, vec![(Input, AddToAmm, 30, true)])], vec![1, g, 2 * g, 900], 0),
        ("long-gaps", vec![(1000, vec![(Input, RemoveFromAmm, 50, true)]), (5000, vec![(Output, RemoveFromAmm, 2, true)]), (1, vec![(Input, AddToAmm, 5, true)])], vec![1, 2, 900, 5001, 6000, 6001, 7000], 1),
        ("unchanged", vec![(g, vec![]), (2 * g, vec![])], vec![1, g, 900, 10_000], 10),
        // history longer than a week; windows around one week, between the week and the history
        // length, and longer than the history
        ("week-long", vec![(100, vec![(Input, AddToAmm, 20, true)]), (8 * 86_400, vec![(Input, AddToAmm, 30, true)])], vec![86_400, 604_799, 604_800, 604_801, 8 * 86_400 + 43_200, 9 * 86_400 + 99, 9 * 86_400 + 100, 9 * 86_400 + 101, 10 * 86_400, 30 * 86_400], 86_400),
        ("month-long", vec![(3_600, vec![(Input, RemoveFromAmm, 15, true)]), (20 * 86_400, vec![(Output, AddToAmm, 2, true)]), (6 * 86_400, vec![(Input, AddToAmm, 40, true)])], vec![900, 604_800, 6 * 86_400 + 3_600, 7 * 86_400 + 3_600, 20 * 86_400, 26 * 86_400 + 3_601, 27 * 86_400, 365 * 86_400], 3_600),
        ("six-blocks", vec![(g, vec![(Input, AddToAmm, 5, true)]), (g, vec![(Input, AddToAmm, 6, false)]), (g, vec![(Input, RemoveFromAmm, 20, true)]), (g, vec![(Output, AddToAmm, 1, false)]), (g, vec![(Input, AddToAmm, 9, true)]), (g, vec![(Input, RemoveFromAmm, 2, false)])], vec![g / 2, g, 2 * g + 1, 5 * g, 6 * g, 900, 7 * g], g / 2),
    ];
    let mut scheds = scheds;
    // a busy market: 150 (thorough: 400) consecutive blocks with a trade each, upward drift with
    // pull-backs, the last two amounts symbolic; windows inside, across and beyond the history
    for (name, nb) in [("busy-150-blocks", 150u64), ("busy-400-blocks", 400)] {
        let mut bl: Vec<Block> = vec![];
        for i in 0..nb {
            let symb = i + 2 >= nb;
            let tr = if i % 3 == 2 { (Input, RemoveFromAmm, 1 + (i % 2) as u128, symb) } else { (Input, AddToAmm, 2 + (i % 4) as u128, symb) };
            bl.push((10, vec![tr]));
        }
        scheds.push((name, bl, vec![5, 60, 600, 1_270, 1_280, 1_290, 10 * nb - 10, 10 * nb, 10 * nb + 10, 10 * nb + 500, 86_400], 7));
    }
    for (name, blocks, ivs, tail) in scheds {
        let tier = if name == "six-blocks" || name == "busy-400-blocks" { Tier::Thorough } else { Tier::Quick };
        v.push(sc("C18", tier, &format!("c18.vamm.{}", name), dv, 400, 120, vamm_twap(blocks.clone(), ivs.clone(), tail)));
        if name == "spike-inside-block" || name == "same-block-query" || name == "two-blocks" {
            v.push(sc("C18", Tier::Quick, &format!("c18.vamm.{}.band5", name), "as above on a vAMM with a 5 % per-block price band (several trades per block, the later ones allowed to leave the band)", 400, 120, with_band(50, vamm_twap(blocks.clone(), ivs.clone(), tail))));
        }
        // the same schedule with block times that are not aligned to whole seconds (the query
        // block's sub-second part smaller than that of the last trading block)
        if name == "two-blocks" || name == "unchanged" || name == "long-gaps" {
            let ns: Vec<u64> = (0..=blocks.len()).map(|i| [900_000_000u64, 300_000_000, 700_000_000, 600_000_000][i % 4]).collect();
            v.push(sc("C18", Tier::Quick, &format!("c18.vamm.{}.unaligned", name), "as above with sub-second block-time offsets", 400, 120, vamm_twap_ns(blocks, ivs, tail.max(2), ns)));
        }
    }
    for (cf, cn) in [(700u64, "700s"), (0, "same-block")] {
        v.push(sc("C18", Tier::Quick, &format!("c18.vamm.closed-and-reopened.{}", cn), "two trades, the vAMM is closed and re-opened (700 s later / in the same block), TWAP windows starting before, at and after the re-opening", 400, 120, vamm_twap_reopen(cf, seed)));
    }
    let df = "the repository's price feed: symbolic prices submitted at enumerated non-decreasing timestamps <= now; TWAP within the submitted prices overlapping the window; latest / n-rounds-back return exactly the submitted (price, timestamp, round)";
    let feeds: Vec<(&str, Vec<u64>, Vec<u64>, u64)> = vec![
        ("two", vec![g, 2 * g], vec![1, g, 2 * g, 3 * g, 3 * g + 7, 900, 100_000], 7),
        ("same-timestamp", vec![g, 0, g], vec![1, g, 2 * g, 900], 3),
        ("four", vec![10, 100, 1000, 15], vec![5, 15, 16, 1015, 1115, 1125, 1126, 5000], 1),
        ("now", vec![g, g], vec![1, g, 2 * g, 900], 0),
        ("week-long", vec![100, 8 * 86_400, 3_600], vec![3_600, 86_400, 604_799, 604_800, 604_801, 8 * 86_400 + 43_200, 9 * 86_400, 10 * 86_400, 30 * 86_400], 86_400),
    ];
    for (name, offs, ivs, tail) in feeds {
        v.push(sc("C18", Tier::Quick, &format!("c18.feed.{}", name), df, 400, 120, feed_twap(offs.clone(), ivs.clone(), tail)));
        // the same submissions sent as AppendMultiplePrice batches onto the existing history
        if name == "four" || name == "two" {
            v.push(sc("C18", Tier::Quick, &format!("c18.feed.{}.batched-2-1", name), "as above, the prices sent in AppendMultiplePrice batches of 2 and 1 entries appended to the existing rounds", 400, 120, feed_twap_b(offs.clone(), ivs.clone(), tail, vec![2, 1])));
            v.push(sc("C18", Tier::Quick, &format!("c18.feed.{}.batched-1", name), "as above, single-entry AppendMultiplePrice batches", 400, 120, feed_twap_b(offs, ivs, tail, vec![1])));
        }
    }
    v
}
