//! C20 — risk caps and configuration bounds.
use super::sc;
use crate::hist::P;
use crate::sx::{c, s, si, var, Cond};
use crate::tpl::*;
use crate::world::*;
use crate::{Scenario, Tier};
use cosmwasm_std::Uint128;
use margined_perp::margined_engine::{ExecuteMsg as EngineExec, Side};
use margined_perp::margined_insurance_fund::ExecuteMsg as InsExec;
use symrt::{prove_d, VAR_MAX};

fn opt(mask: u32, bit: u32, name: &str, seed: u128) -> Option<Uint128> {
    if mask & (1 << bit) != 0 {
        Some(var(name, 0, VAR_MAX, seed))
    } else {
        None
    }
}

fn engine_cfg_ok(w: &World, what: &str) {
    let cfg = w.engine_config();
    let d = c(w.d);
    prove_d(
        "C20/engine-ratios-within-[0,1]",
        Cond::all(vec![s(cfg.initial_margin_ratio).le(d), s(cfg.maintenance_margin_ratio).le(d), s(cfg.partial_liquidation_ratio).le(d), s(cfg.liquidation_fee).le(d)]),
        what.to_string(),
    );
    prove_d("C20/maintenance<=initial", s(cfg.maintenance_margin_ratio).le(s(cfg.initial_margin_ratio)), what.to_string());
}
fn vamm_cfg_ok(w: &World, what: &str) {
    let cfg = w.vamm_config(0);
    let d = c(w.d);
    prove_d("C20/vamm-ratios-within-[0,1]", Cond::all(vec![s(cfg.toll_ratio).le(d), s(cfg.spread_ratio).le(d), s(cfg.fluctuation_limit_ratio).le(d)]), what.to_string());
    prove_d("C20/twap-interval-between-1min-and-1week", Cond::from_bool((60..=604_800).contains(&cfg.spot_price_twap_interval)), format!("{} interval={}", what, cfg.spot_price_twap_interval));
}

/// sequences of engine UpdateConfig calls; every optional ratio absent | symbolic over the full range
fn engine_cfg(masks: Vec<u32>, sym_deploy: bool) -> impl Fn() {
    move || {
        let mut cfg = Cfg::base(false, 9);
        let d = cfg.d();
        if sym_deploy {
            // instantiate-time ratios over the full range as well (rejected deployments are dropped)
            cfg.init_ratio = var("i.init", 0, VAR_MAX, d / 10);
            cfg.maint_ratio = var("i.maint", 0, VAR_MAX, d / 20);
            cfg.liq_fee = var("i.liq", 0, VAR_MAX, d / 20);
            cfg.partial_ratio = var("i.partial", 0, VAR_MAX, d / 4);
        }
        symrt::set_full(true);
        let mut w = deploy_or_drop(cfg);
        engine_cfg_ok(&w, "after-deploy");
        for (k, m) in masks.iter().enumerate() {
            let before = w.engine_config();
            let t = w.update_engine(
                opt(*m, 0, &format!("u{}.init", k), d / 10),
                opt(*m, 1, &format!("u{}.maint", k), d / 20),
                opt(*m, 2, &format!("u{}.partial", k), d / 4),
                opt(*m, 3, &format!("u{}.liq", k), d / 20),
            );
            let what = format!("update#{} mask={:04b} {}", k, m, if t.ok { "accepted" } else { "rejected" });
            engine_cfg_ok(&w, &what);
            if !t.ok {
                let after = w.engine_config();
                prove_d(
                    "C20/rejected-update-changes-nothing",
                    Cond::all(vec![
                        s(before.initial_margin_ratio).eq(s(after.initial_margin_ratio)),
                        s(before.maintenance_margin_ratio).eq(s(after.maintenance_margin_ratio)),
                        s(before.partial_liquidation_ratio).eq(s(after.partial_liquidation_ratio)),
                        s(before.liquidation_fee).eq(s(after.liquidation_fee)),
                    ]),
                    what,
                );
            }
        }
    }
}

const INTERVALS: [u64; 15] = [0, 1, 59, 60, 61, 3600, 604_799, 604_800, 604_801, (1 << 32) + 59, (1 << 32) + 60, (1 << 32) + 3600, (1 << 33) + 604_800, u64::MAX - 1, u64::MAX];

fn vamm_cfg(masks: Vec<u32>, seed: u64) -> impl Fn() {
    move || {
        let mut cfg = Cfg::base(false, 9);
        let d = cfg.d();
        cfg.toll = var("i.toll", 0, VAR_MAX, d / 100);
        cfg.spread = var("i.spread", 0, VAR_MAX, d / 100);
        cfg.fluct = var("i.fluct", 0, VAR_MAX, d / 100);
        symrt::set_full(true);
        let mut w = deploy_or_drop(cfg);
        vamm_cfg_ok(&w, "after-deploy");
        for (k, m) in masks.iter().enumerate() {
            let twap = if m & 8 != 0 { Some(INTERVALS[((seed as usize) + k * 4 + (*m as usize)) % INTERVALS.len()]) } else { None };
            let t = w.update_vamm(
                0,
                opt(*m, 4, &format!("u{}.hold", k), 0),
                opt(*m, 5, &format!("u{}.oi", k), 0),
                opt(*m, 0, &format!("u{}.toll", k), d / 100),
                opt(*m, 1, &format!("u{}.spread", k), d / 100),
                opt(*m, 2, &format!("u{}.fluct", k), d / 100),
                twap,
            );
            vamm_cfg_ok(&w, &format!("update#{} mask={:06b} twap={:?} {}", k, m, twap, if t.ok { "accepted" } else { "rejected" }));
        }
    }
}

/// every twap interval boundary on its own (the interval is a u64: enumerated, not solver-quantified)
fn vamm_twap_bounds() {
    for (i, iv) in INTERVALS.iter().enumerate() {
        let mut w = deploy_or_drop(Cfg::base(false, 9));
        let t = w.update_vamm(0, None, None, None, None, None, Some(*iv));
        vamm_cfg_ok(&w, &format!("interval#{}={} {}", i, iv, if t.ok { "accepted" } else { "rejected" }));
        prove_d("C20/twap-interval-accepted-iff-in-range", Cond::from_bool(t.ok == (60..=604_800).contains(iv)), format!("interval={}", iv));
    }
}

/// AddVamm succeeds only if the vAMM's decimals equal the engine's
fn add_vamm_decimals() {
    for (native, edec) in [(true, 6u8), (false, 9u8), (false, 6u8)] {
        for vdec in [6u8, 7, 9, 12] {
            let mut w = deploy_or_drop(Cfg::base(native, edec));
            let v = w.instantiate_vamm(vdec);
            let t = w.ins_exec(OWNER, &InsExec::AddVamm { vamm: v.to_string() });
            prove_d("C20/add-vamm-only-with-equal-decimals", Cond::from_bool(!t.ok || vdec == edec), format!("engine={} vamm={} ok={}", edec, vdec, t.ok));
            prove_d("C20/add-vamm-with-equal-decimals-accepted", Cond::from_bool(t.ok || vdec != edec), format!("engine={} vamm={} err={}", edec, vdec, crate::sx::norm(&t.err)));
        }
    }
}

/// caps: symbolic open-interest and holding caps, whitelist membership enumerated, cap changed
/// between two trades
fn caps(side: Side, whitelisted: bool, second: u8, seed: u64) -> impl Fn() {
    move || {
        let p = P::new("C20", side.clone(), seed);
        let mut r = p.run();
        let d = r.w.d;
        symrt::set_full(false);
        let hold1 = var("hold1", 0, 1u128 << 80, 30 * d);
        let oi1 = var("oi1", 0, 1u128 << 90, 500 * d);
        let t = r.w.update_vamm(0, Some(hold1), Some(oi1), None, None, None, None);
        assert!(t.ok);
        if whitelisted {
            let t = r.w.engine_exec(OWNER, &EngineExec::AddWhitelist { address: ALICE.into() });
            assert!(t.ok);
        }
        symrt::set_full(true);
        let check = |r: &Run, rec: &StepRec, hold: Uint128, oi: Uint128, what: &str| {
            let size0 = crate::mon::size_of(&rec.pre.pos[&(0, ALICE)]);
            let size1 = crate::mon::size_of(&rec.post.pos[&(0, ALICE)]);
            let grew = size1.abs().gt(size0.abs()).or(size1.mul(size0).lt(c(0)));
            let oi_grew = s(rec.post.eng.open_interest_notional).gt(s(rec.pre.eng.open_interest_notional));
            if rec.tx.ok && !whitelisted {
                prove_d("C20/open-interest-within-cap-after-increasing-trade", s(oi).eq(c(0)).or(oi_grew.clone().not()).or(s(rec.post.eng.open_interest_notional).le(s(oi))), what.to_string());
                prove_d("C20/position-size-within-holding-cap-after-increasing-trade", s(hold).eq(c(0)).or(grew.not()).or(size1.abs().le(s(hold))), what.to_string());
            }
            if whitelisted {
                prove_d("C20/whitelisted-trader-not-rejected-for-caps", Cond::from_bool(rec.tx.ok || !rec.tx.err.contains("exceeds cap")), format!("{} err={}", what, crate::sx::norm(&rec.tx.err)));
            }
            let _ = (r, si);
        };
        // two-trade variants: the first trade is a concrete prefix (one position-shaping amount
        // symbolic at a time), caps stay symbolic
        let m1 = if second == 0 { amount("m1", d, false, 20) } else { Uint128::new((15 + (seed % 10) as u128) * d) };
        if second != 0 {
            symrt::set_full(false);
        }
        let rec = r.step(Op::Open { who: ALICE, side: side.clone(), margin: m1, lev: Uint128::new(2 * d), limit: Uint128::zero(), funds: None });
        check(&r, &rec, hold1, oi1, "first-open");
        if second == 0 || !rec.tx.ok {
            return;
        }
        r.w.next_block(15);
        symrt::set_full(true);
        // caps changed between the trades
        let hold2 = var("hold2", 0, 1u128 << 80, 10 * d);
        let oi2 = var("oi2", 0, 1u128 << 90, 100 * d);
        let t = r.w.update_vamm(0, Some(hold2), Some(oi2), None, None, None, None);
        assert!(t.ok);
        let m2 = amount("m2", d, false, 15);
        let side2 = if second == 1 { side.clone() } else { opp(&side) };
        let rec = r.step(Op::Open { who: ALICE, side: side2, margin: m2, lev: Uint128::new(4 * d), limit: Uint128::zero(), funds: None });
        check(&r, &rec, hold2, oi2, if second == 1 { "second-open-same-side" } else { "second-open-opposite-side" });
    }
}

pub fn scenarios(seed: u64) -> Vec<Scenario> {
    let mut v = vec![];
    let de = "engine UpdateConfig: each optional ratio independently absent or symbolic in [0, 2^128-2^32); after every call all stored ratios <= 1 and maintenance <= initial; rejected calls change nothing";
    for m in 1..16u32 {
        v.push(sc("C20", Tier::Quick, &format!("c20.ecfg.m{:02}", m), de, 300, 60, engine_cfg(vec![m], false)));
    }
    let s1 = (seed % 15) as u32 + 1;
    let s2 = ((seed / 3) % 15) as u32 + 1;
    v.push(sc("C20", Tier::Quick, "c20.ecfg.seq2", de, 600, 90, engine_cfg(vec![15, s1], false)));
    v.push(sc("C20", Tier::Quick, "c20.ecfg.seq3", de, 1500, 120, engine_cfg(vec![s1, s2, 3], false)));
    v.push(sc("C20", Tier::Quick, "c20.ecfg.deploy", "instantiate-time ratios symbolic over the full range, then one full update", 800, 120, engine_cfg(vec![15], true)));
    v.push(sc("C20", Tier::Thorough, "c20.ecfg.seq3.full", de, 6000, 900, engine_cfg(vec![15, 15, 15], true)));
    let dv = "vAMM instantiate + UpdateConfig: toll/spread/fluctuation/caps absent or symbolic over the full range, twap interval from the boundary set {0,1,59,60,61,3600,604799,604800,604801, 2^32+59, 2^32+60, 2^32+3600, 2^33+604800, 2^64-2, 2^64-1}";
    for m in [1u32, 2, 4, 7, 8, 15, 63] {
        v.push(sc("C20", Tier::Quick, &format!("c20.vcfg.m{:02}", m), dv, 400, 60, vamm_cfg(vec![m], seed)));
    }
    v.push(sc("C20", Tier::Quick, "c20.vcfg.seq3", dv, 1500, 120, vamm_cfg(vec![15, (seed % 15) as u32 + 1, 9], seed)));
    v.push(sc("C20", Tier::Quick, "c20.vcfg.twap-bounds", "every twap interval boundary value (enumerated)", 10, 60, vamm_twap_bounds));
    v.push(sc("C20", Tier::Quick, "c20.addvamm.decimals", "engine decimals {6 native, 9, 6} x vAMM decimals {6,7,9,12} (enumerated)", 10, 60, add_vamm_decimals));
    let dc = "caps: open-interest cap and holding cap symbolic (incl. 0 = off), whitelist membership enumerated, caps changed between two trades, margins symbolic";
    for (side, sn) in [(Side::Buy, "long"), (Side::Sell, "short")] {
        for wl in [false, true] {
            for (k, kn) in [(0u8, "one"), (1, "same"), (2, "opp")] {
                let tier = if wl && k == 2 { Tier::Thorough } else { Tier::Quick };
                v.push(sc("C20", tier, &format!("c20.caps.{}.{}.{}", sn, if wl { "wl" } else { "plain" }, kn), dc, 600, 150, caps(side.clone(), wl, k, seed)));
            }
        }
    }
    v
}
