//! C09 — privileged operations are restricted to their role in all five contracts.
//! Every privileged ExecuteMsg variant x every kind of sender (enumerated exhaustively), payloads
//! symbolic over the full range, before and after the role was transferred.
use super::sc;
use crate::mon;
use crate::sx::{var, Cond};
use crate::tpl::*;
use crate::world::*;
use crate::{Scenario, Tier};
use cosmwasm_std::{Addr, Uint128};
use margined_common::asset::AssetInfo;
use margined_perp::margined_engine::ExecuteMsg as EngineExec;
use margined_perp::margined_fee_pool::ExecuteMsg as PoolExec;
use margined_perp::margined_insurance_fund::ExecuteMsg as InsExec;
use margined_perp::margined_pricefeed::ExecuteMsg as FeedExec;
use margined_perp::margined_vamm::{Direction, ExecuteMsg as VammExec};
use symrt::{prove_d, VAR_MAX};

#[derive(Clone, Copy, PartialEq, Debug)]
enum Role {
    Owner,
    Pauser,
    Engine,
    Ins,
    Vamm,
    Trader,
    Stranger,
    NewOwner,
    NewPauser,
}

#[derive(Clone, Copy, PartialEq, Debug)]
enum Need {
    Owner,
    Pauser,
    Engine,
    OwnerOrIns,
}

fn v(name: &str, seed: u128) -> Uint128 {
    var(name, 0, VAR_MAX, seed)
}

/// (contract, variant name, required role, message builder); the builder makes fresh symbolic payloads
type Mk = Box<dyn Fn(&World, &str) -> Box<dyn FnOnce(&mut World, &str) -> Tx>>;

/// state-dependent variants: `prep` puts the deployment into the state the call is redundant /
/// meaningful in (a closed vAMM, a paused engine, ...); `redundant`: the call asks for no change,
/// which the contracts may refuse even from the role holder (only the non-role side is checked)
type Prep = fn(&mut World);
struct V {
    contract: &'static str,
    name: &'static str,
    need: Need,
    mk: Mk,
    prep: Option<Prep>,
    redundant: bool,
}

fn variants() -> Vec<V> {
    let mut out: Vec<V> = base_variants().into_iter().map(|(contract, name, need, mk)| V { contract, name, need, mk, prep: None, redundant: false }).collect();
    fn mk<F: Fn(&World, &str) -> Box<dyn FnOnce(&mut World, &str) -> Tx> + 'static>(f: F) -> Mk {
        Box::new(f)
    }
    fn close_vamm(w: &mut World) {
        assert!(w.vamm_exec(OWNER_NOW.with(|o| o.get()), 0, &VammExec::SetOpen { open: false }).ok);
    }
    fn pause(w: &mut World) {
        let a = w.engine.clone();
        assert!(w.exec(PAUSER_NOW.with(|o| o.get()), &a, &EngineExec::SetPause { pause: true }, &[]).ok);
    }
    let mut add = |contract: &'static str, name: &'static str, need: Need, prep: Option<Prep>, redundant: bool, mk: Mk| out.push(V { contract, name, need, mk, prep, redundant });
    // the flag-valued entry points with BOTH flag values in BOTH states
    add("vamm", "set_open.true-when-open", Need::OwnerOrIns, None, true, mk(|_w, _t| Box::new(move |w, who| { let a = w.vamms[0].clone(); w.exec(who, &a, &VammExec::SetOpen { open: true }, &[]) })));
    add("vamm", "set_open.true-when-closed", Need::OwnerOrIns, Some(close_vamm), false, mk(|_w, _t| Box::new(move |w, who| { let a = w.vamms[0].clone(); w.exec(who, &a, &VammExec::SetOpen { open: true }, &[]) })));
    add("vamm", "set_open.false-when-closed", Need::OwnerOrIns, Some(close_vamm), true, mk(|_w, _t| Box::new(move |w, who| { let a = w.vamms[0].clone(); w.exec(who, &a, &VammExec::SetOpen { open: false }, &[]) })));
    add("engine", "set_pause.false-when-live", Need::Pauser, None, true, mk(|_w, _t| Box::new(move |w, who| { let a = w.engine.clone(); w.exec(who, &a, &EngineExec::SetPause { pause: false }, &[]) })));
    add("engine", "set_pause.false-when-paused", Need::Pauser, Some(pause), false, mk(|_w, _t| Box::new(move |w, who| { let a = w.engine.clone(); w.exec(who, &a, &EngineExec::SetPause { pause: false }, &[]) })));
    add("engine", "set_pause.true-when-paused", Need::Pauser, Some(pause), true, mk(|_w, _t| Box::new(move |w, who| { let a = w.engine.clone(); w.exec(who, &a, &EngineExec::SetPause { pause: true }, &[]) })));
    // address-valued settings re-pointed by the owner at an account WITHOUT a role (the stranger):
    // that account gains nothing; the non-role side of the role-gated entry points is checked again
    fn repoint_feed(w: &mut World) {
        let m = VammExec::UpdateConfig { base_asset_holding_cap: None, open_interest_notional_cap: None, toll_ratio: None, spread_ratio: None, fluctuation_limit_ratio: None, margin_engine: None, insurance_fund: None, pricefeed: Some(EVE.into()), spot_price_twap_interval: None };
        assert!(w.vamm_exec(OWNER_NOW.with(|o| o.get()), 0, &m).ok);
    }
    fn repoint_fee_pool(w: &mut World) {
        let a = w.engine.clone();
        let m = EngineExec::UpdateConfig { owner: None, insurance_fund: None, fee_pool: Some(EVE.into()), initial_margin_ratio: None, maintenance_margin_ratio: None, partial_liquidation_ratio: None, liquidation_fee: None };
        // (sent by whoever owns the engine in this deployment)
        assert!(w.exec(OWNER, &a, &m, &[]).ok || w.exec("owner2", &a, &m, &[]).ok);
    }
    for (nm, flag) in [("set_open.false.after-pricefeed-repointed", false), ("set_open.true.after-pricefeed-repointed", true)] {
        add("vamm", nm, Need::OwnerOrIns, Some(repoint_feed), true, mk(move |_w, _t| Box::new(move |w, who| { let a = w.vamms[0].clone(); w.exec(who, &a, &VammExec::SetOpen { open: flag }, &[]) })));
    }
    add("vamm", "settle_funding.after-pricefeed-repointed", Need::Engine, Some(repoint_feed), true, mk(|_w, _t| Box::new(move |w, who| { let a = w.vamms[0].clone(); w.exec(who, &a, &VammExec::SettleFunding {}, &[]) })));
    add("vamm", "update_owner.after-pricefeed-repointed", Need::Owner, Some(repoint_feed), true, mk(|_w, _t| Box::new(move |w, who| { let a = w.vamms[0].clone(); w.exec(who, &a, &VammExec::UpdateOwner { owner: EVE.into() }, &[]) })));
    add("engine", "set_pause.after-fee-pool-repointed", Need::Pauser, Some(repoint_fee_pool), true, mk(|_w, _t| Box::new(move |w, who| { let a = w.engine.clone(); w.exec(who, &a, &EngineExec::SetPause { pause: true }, &[]) })));
    add("engine", "update_pauser.after-fee-pool-repointed", Need::Pauser, Some(repoint_fee_pool), true, mk(|_w, _t| Box::new(move |w, who| { let a = w.engine.clone(); w.exec(who, &a, &EngineExec::UpdatePauser { pauser: EVE.into() }, &[]) })));
    // list edits that ask for no change
    add("engine", "add_whitelist.already-listed", Need::Pauser, None, true, mk(|_w, _t| Box::new(move |w, who| { let a = w.engine.clone(); w.exec(who, &a, &EngineExec::AddWhitelist { address: ALICE.into() }, &[]) })));
    add("engine", "remove_whitelist.not-listed", Need::Pauser, None, true, mk(|_w, _t| Box::new(move |w, who| { let a = w.engine.clone(); w.exec(who, &a, &EngineExec::RemoveWhitelist { address: "stranger".into() }, &[]) })));
    add("insurance_fund", "add_vamm.already-registered", Need::Owner, None, true, mk(|_w, _t| Box::new(move |w, who| { let a = w.ins.clone(); let vm = w.vamms[0].to_string(); w.exec(who, &a, &InsExec::AddVamm { vamm: vm }, &[]) })));
    add("insurance_fund", "remove_vamm.not-registered", Need::Owner, None, true, mk(|_w, _t| Box::new(move |w, who| { let a = w.ins.clone(); w.exec(who, &a, &InsExec::RemoveVamm { vamm: "stranger".into() }, &[]) })));
    add("insurance_fund", "shutdown_vamms.all-closed", Need::Owner, Some(close_vamm), true, mk(|_w, _t| Box::new(move |w, who| { let a = w.ins.clone(); w.exec(who, &a, &InsExec::ShutdownVamms {}, &[]) })));
    add("fee_pool", "add_token.already-listed", Need::Owner, None, true, mk(|w, _t| {
        let token = match &w.token { Some(t) => t.to_string(), None => DENOM.to_string() };
        Box::new(move |w, who| { let a = w.feepool.clone(); w.exec(who, &a, &PoolExec::AddToken { token }, &[]) })
    }));
    add("fee_pool", "remove_token.not-listed", Need::Owner, None, true, mk(|_w, _t| Box::new(move |w, who| { let a = w.feepool.clone(); w.exec(who, &a, &PoolExec::RemoveToken { token: "ujunox".into() }, &[]) })));
    out
}

thread_local! {
    /// current holders of the owner / pauser role in the deployment being prepared (after a role
    /// transfer the preparation step must be sent by the new holder)
    static OWNER_NOW: std::cell::Cell<&'static str> = std::cell::Cell::new(OWNER);
    static PAUSER_NOW: std::cell::Cell<&'static str> = std::cell::Cell::new("pauser");
}

fn base_variants() -> Vec<(&'static str, &'static str, Need, Mk)> {
    fn mk<F: Fn(&World, &str) -> Box<dyn FnOnce(&mut World, &str) -> Tx> + 'static>(f: F) -> Mk {
        Box::new(f)
    }
    let mut t: Vec<(&'static str, &'static str, Need, Mk)> = vec![];
    // ---------------- vAMM
    t.push(("vamm", "swap_input", Need::Engine, mk(|w, tag| {
        let d = w.d;
        let m = VammExec::SwapInput { direction: Direction::AddToAmm, quote_asset_amount: v(&format!("{}.amt", tag), 10 * d), base_asset_limit: v(&format!("{}.lim", tag), 0), can_go_over_fluctuation: false };
        Box::new(move |w, who| { let a = w.vamms[0].clone(); w.exec(who, &a, &m, &[]) })
    })));
    t.push(("vamm", "swap_output", Need::Engine, mk(|w, tag| {
        let d = w.d;
        let m = VammExec::SwapOutput { direction: Direction::RemoveFromAmm, base_asset_amount: v(&format!("{}.amt", tag), d), quote_asset_limit: v(&format!("{}.lim", tag), 0) };
        Box::new(move |w, who| { let a = w.vamms[0].clone(); w.exec(who, &a, &m, &[]) })
    })));
    t.push(("vamm", "settle_funding", Need::Engine, mk(|_w, _tag| {
        Box::new(move |w, who| { let a = w.vamms[0].clone(); w.exec(who, &a, &VammExec::SettleFunding {}, &[]) })
    })));
    t.push(("vamm", "update_config", Need::Owner, mk(|w, tag| {
        let d = w.d;
        let m = VammExec::UpdateConfig {
            base_asset_holding_cap: Some(v(&format!("{}.hold", tag), 0)),
            open_interest_notional_cap: Some(v(&format!("{}.oi", tag), 0)),
            toll_ratio: Some(v(&format!("{}.toll", tag), d / 100)),
            spread_ratio: Some(v(&format!("{}.spread", tag), d / 100)),
            fluctuation_limit_ratio: Some(v(&format!("{}.fluct", tag), d / 100)),
            margin_engine: Some("stranger".into()),
            insurance_fund: None,
            pricefeed: None,
            spot_price_twap_interval: Some(3600),
        };
        Box::new(move |w, who| { let a = w.vamms[0].clone(); w.exec(who, &a, &m, &[]) })
    })));
    t.push(("vamm", "update_owner", Need::Owner, mk(|_w, _tag| {
        Box::new(move |w, who| { let a = w.vamms[0].clone(); w.exec(who, &a, &VammExec::UpdateOwner { owner: "stranger".into() }, &[]) })
    })));
    t.push(("vamm", "set_open", Need::OwnerOrIns, mk(|_w, _tag| {
        Box::new(move |w, who| { let a = w.vamms[0].clone(); w.exec(who, &a, &VammExec::SetOpen { open: false }, &[]) })
    })));
    // ---------------- engine
    t.push(("engine", "update_config", Need::Owner, mk(|w, tag| {
        let d = w.d;
        let m = EngineExec::UpdateConfig {
            owner: None,
            insurance_fund: None,
            fee_pool: Some("stranger".into()),
            initial_margin_ratio: Some(v(&format!("{}.init", tag), d / 10)),
            maintenance_margin_ratio: Some(v(&format!("{}.maint", tag), d / 20)),
            partial_liquidation_ratio: Some(v(&format!("{}.partial", tag), d / 4)),
            liquidation_fee: Some(v(&format!("{}.liq", tag), d / 20)),
        };
        Box::new(move |w, who| { let a = w.engine.clone(); w.exec(who, &a, &m, &[]) })
    })));
    t.push(("engine", "update_pauser", Need::Pauser, mk(|_w, _tag| {
        Box::new(move |w, who| { let a = w.engine.clone(); w.exec(who, &a, &EngineExec::UpdatePauser { pauser: "stranger".into() }, &[]) })
    })));
    t.push(("engine", "add_whitelist", Need::Pauser, mk(|_w, _tag| {
        Box::new(move |w, who| { let a = w.engine.clone(); w.exec(who, &a, &EngineExec::AddWhitelist { address: "stranger".into() }, &[]) })
    })));
    t.push(("engine", "remove_whitelist", Need::Pauser, mk(|_w, _tag| {
        Box::new(move |w, who| { let a = w.engine.clone(); w.exec(who, &a, &EngineExec::RemoveWhitelist { address: ALICE.into() }, &[]) })
    })));
    t.push(("engine", "set_pause", Need::Pauser, mk(|_w, _tag| {
        Box::new(move |w, who| { let a = w.engine.clone(); w.exec(who, &a, &EngineExec::SetPause { pause: true }, &[]) })
    })));
    // ---------------- insurance fund
    t.push(("insurance_fund", "withdraw", Need::Engine, mk(|w, tag| {
        let token = match &w.token { Some(t) => AssetInfo::Token { contract_addr: t.clone() }, None => AssetInfo::NativeToken { denom: DENOM.into() } };
        let m = InsExec::Withdraw { token, amount: v(&format!("{}.amt", tag), w.d) };
        Box::new(move |w, who| { let a = w.ins.clone(); w.exec(who, &a, &m, &[]) })
    })));
    t.push(("insurance_fund", "add_vamm", Need::Owner, mk(|_w, _tag| {
        Box::new(move |w, who| { let v2 = w.instantiate_vamm(w.cfg.decimals); let a = w.ins.clone(); w.exec(who, &a, &InsExec::AddVamm { vamm: v2.to_string() }, &[]) })
    })));
    t.push(("insurance_fund", "remove_vamm", Need::Owner, mk(|_w, _tag| {
        Box::new(move |w, who| { let a = w.ins.clone(); let vm = w.vamms[0].to_string(); w.exec(who, &a, &InsExec::RemoveVamm { vamm: vm }, &[]) })
    })));
    t.push(("insurance_fund", "shutdown_vamms", Need::Owner, mk(|_w, _tag| {
        Box::new(move |w, who| { let a = w.ins.clone(); w.exec(who, &a, &InsExec::ShutdownVamms {}, &[]) })
    })));
    t.push(("insurance_fund", "update_owner", Need::Owner, mk(|_w, _tag| {
        Box::new(move |w, who| { let a = w.ins.clone(); w.exec(who, &a, &InsExec::UpdateOwner { owner: "stranger".into() }, &[]) })
    })));
    // ---------------- fee pool
    t.push(("fee_pool", "add_token", Need::Owner, mk(|_w, _tag| {
        Box::new(move |w, who| { let a = w.feepool.clone(); w.exec(who, &a, &PoolExec::AddToken { token: "ujunox".into() }, &[]) })
    })));
    t.push(("fee_pool", "remove_token", Need::Owner, mk(|_w, _tag| {
        Box::new(move |w, who| { let a = w.feepool.clone(); w.exec(who, &a, &PoolExec::RemoveToken { token: DENOM.into() }, &[]) })
    })));
    t.push(("fee_pool", "send_token", Need::Owner, mk(|w, tag| {
        let token = match &w.token { Some(t) => t.to_string(), None => DENOM.to_string() };
        let m = PoolExec::SendToken { token, amount: v(&format!("{}.amt", tag), w.d), recipient: "stranger".into() };
        Box::new(move |w, who| { let a = w.feepool.clone(); w.exec(who, &a, &m, &[]) })
    })));
    // the payout names a privileged account as the recipient (the owner before / after a transfer)
    for (nm, rcp) in [("send_token.to-owner", OWNER), ("send_token.to-new-owner", "owner2")] {
        t.push(("fee_pool", nm, Need::Owner, mk(move |w, tag| {
            let token = match &w.token { Some(t) => t.to_string(), None => DENOM.to_string() };
            let m = PoolExec::SendToken { token, amount: v(&format!("{}.amt", tag), w.d), recipient: rcp.into() };
            Box::new(move |w, who| { let a = w.feepool.clone(); w.exec(who, &a, &m, &[]) })
        })));
    }
    t.push(("fee_pool", "update_owner", Need::Owner, mk(|_w, _tag| {
        Box::new(move |w, who| { let a = w.feepool.clone(); w.exec(who, &a, &PoolExec::UpdateOwner { owner: "stranger".into() }, &[]) })
    })));
    // ---------------- price feed (the repository's own)
    t.push(("pricefeed", "append_price", Need::Owner, mk(|w, tag| {
        let m = FeedExec::AppendPrice { key: "USD".into(), price: v(&format!("{}.price", tag), 11 * w.d), timestamp: 1_571_797_000 };
        Box::new(move |w, who| { let a = w.feed.clone(); w.exec(who, &a, &m, &[]) })
    })));
    t.push(("pricefeed", "append_multiple_price", Need::Owner, mk(|w, tag| {
        let m = FeedExec::AppendMultiplePrice { key: "USD".into(), prices: vec![v(&format!("{}.p1", tag), 11 * w.d), v(&format!("{}.p2", tag), 12 * w.d)], timestamps: vec![1_571_797_000, 1_571_797_100] };
        Box::new(move |w, who| { let a = w.feed.clone(); w.exec(who, &a, &m, &[]) })
    })));
    t.push(("pricefeed", "append_multiple_price.empty", Need::Owner, mk(|_w, _tag| {
        let m = FeedExec::AppendMultiplePrice { key: "USD".into(), prices: vec![], timestamps: vec![] };
        Box::new(move |w, who| { let a = w.feed.clone(); w.exec(who, &a, &m, &[]) })
    })));
    t.push(("pricefeed", "append_multiple_price.one", Need::Owner, mk(|w, tag| {
        let m = FeedExec::AppendMultiplePrice { key: "USD".into(), prices: vec![v(&format!("{}.p1", tag), 11 * w.d)], timestamps: vec![1_571_797_000] };
        Box::new(move |w, who| { let a = w.feed.clone(); w.exec(who, &a, &m, &[]) })
    })));
    t.push(("pricefeed", "update_owner", Need::Owner, mk(|_w, _tag| {
        Box::new(move |w, who| { let a = w.feed.clone(); w.exec(who, &a, &FeedExec::UpdateOwner { owner: "stranger".into() }, &[]) })
    })));
    t
}

fn sender_addr(w: &World, r: Role) -> String {
    match r {
        Role::Owner => OWNER.into(),
        Role::Pauser => "pauser".into(),
        Role::Engine => w.engine.to_string(),
        Role::Ins => w.ins.to_string(),
        Role::Vamm => w.vamms[0].to_string(),
        Role::Trader => ALICE.into(),
        Role::Stranger => EVE.into(),
        Role::NewOwner => "owner2".into(),
        Role::NewPauser => "pauser2".into(),
    }
}

fn setup(native: bool, contract: &str, transferred: bool) -> World {
    let mut cfg = Cfg::base(native, if native { 6 } else { 9 });
    cfg.real_feed = true;
    let mut w = deploy_or_drop(cfg);
    // a pauser distinct from the owner, a whitelisted trader, a fee-pool token, a live position and
    // some collateral in the fee pool so that every privileged call has something to act on
    assert!(w.engine_exec(OWNER, &EngineExec::UpdatePauser { pauser: "pauser".into() }).ok);
    assert!(w.engine_exec("pauser", &EngineExec::AddWhitelist { address: ALICE.into() }).ok);
    let token = match &w.token { Some(t) => t.to_string(), None => DENOM.to_string() };
    let fp = w.feepool.clone();
    assert!(w.exec(OWNER, &fp, &PoolExec::AddToken { token }, &[]).ok);
    let d = w.d;
    assert!(w.transfer(EVE, &fp, Uint128::new(10 * d)).ok);
    if transferred {
        let t = match contract {
            "vamm" => { let a = w.vamms[0].clone(); w.exec(OWNER, &a, &VammExec::UpdateOwner { owner: "owner2".into() }, &[]) }
            "engine" => {
                let a = w.engine.clone();
                let t = w.exec(OWNER, &a, &EngineExec::UpdateConfig { owner: Some("owner2".into()), insurance_fund: None, fee_pool: None, initial_margin_ratio: None, maintenance_margin_ratio: None, partial_liquidation_ratio: None, liquidation_fee: None }, &[]);
                assert!(t.ok);
                w.exec("pauser", &a, &EngineExec::UpdatePauser { pauser: "pauser2".into() }, &[])
            }
            "insurance_fund" => { let a = w.ins.clone(); w.exec(OWNER, &a, &InsExec::UpdateOwner { owner: "owner2".into() }, &[]) }
            "fee_pool" => { let a = w.feepool.clone(); w.exec(OWNER, &a, &PoolExec::UpdateOwner { owner: "owner2".into() }, &[]) }
            _ => { let a = w.feed.clone(); w.exec(OWNER, &a, &FeedExec::UpdateOwner { owner: "owner2".into() }, &[]) }
        };
        assert!(t.ok, "role transfer failed: {}", t.err);
    }
    w
}

fn authorised(need: Need, r: Role, transferred: bool, contract: &str) -> bool {
    let owner_now = if transferred { Role::NewOwner } else { Role::Owner };
    let pauser_now = if transferred && contract == "engine" { Role::NewPauser } else { Role::Pauser };
    match need {
        Need::Owner => r == owner_now,
        Need::Pauser => r == pauser_now,
        Need::Engine => r == Role::Engine,
        Need::OwnerOrIns => r == owner_now || r == Role::Ins,
    }
}

fn is_auth_error(e: &str) -> bool {
    let e = e.to_lowercase();
    e.contains("unauthorized") || e.contains("not margin engine") || e.contains("not admin") || e.contains("caller is not")
}

fn one(idx: usize, native: bool, transferred: bool) -> impl Fn() {
    move || {
        let all = variants();
        let V { contract, name: variant, need, mk, prep, redundant } = &all[idx];
        let mut roles = vec![Role::Owner, Role::Pauser, Role::Engine, Role::Ins, Role::Vamm, Role::Trader, Role::Stranger];
        if transferred {
            roles.push(Role::NewOwner);
            roles.push(Role::NewPauser);
        }
        symrt::set_full(true);
        for (k, role) in roles.iter().enumerate() {
            // a contract's own address is not a sender any external party can produce (and the
            // repository's test_vamm_shutdown_from_insurance pins the self-permission on
            // ShutdownVamms as intended): not part of the sender set
            let is_self = matches!((*contract, *role), ("engine", Role::Engine) | ("insurance_fund", Role::Ins) | ("vamm", Role::Vamm));
            if is_self {
                continue;
            }
            let mut w = setup(native, contract, transferred);
            if let Some(prep) = prep {
                // (the vAMM's owner changes only when the vAMM's own role was transferred, etc.)
                OWNER_NOW.with(|o| o.set(if transferred && *contract == "vamm" { "owner2" } else { OWNER }));
                PAUSER_NOW.with(|o| o.set(if transferred && *contract == "engine" { "pauser2" } else { "pauser" }));
                prep(&mut w);
            }
            let who = sender_addr(&w, *role);
            let tag = format!("r{}", k);
            let call = mk(&w, &tag);
            let dump0 = w.dump();
            let bal0 = w.balances();
            let t = call(&mut w, &who);
            let what = format!("{}:{} sender={:?}{}", contract, variant, role, if transferred { " after-transfer" } else { "" });
            symrt::log_event(format!("{} -> {} {}", what, t.ok, crate::sx::norm(&t.err)));
            if authorised(*need, *role, transferred, contract) {
                if *redundant {
                    continue;
                }
                prove_d("C09/role-holder-not-rejected-for-authorisation", Cond::from_bool(t.ok || !is_auth_error(&t.err)), format!("{} err={}", what, crate::sx::norm(&t.err)));
            } else {
                prove_d("C09/non-role-sender-rejected", Cond::from_bool(!t.ok), what.clone());
                // (the extra vAMM instantiated for add_vamm is environment set-up, done before the dump)
                if *variant != "add_vamm" {
                    mon::dump_unchanged("C09/rejected-call-leaves-storage-unchanged", &dump0, &w.dump(), &what);
                }
                mon::balances_unchanged("C09/rejected-call-leaves-balances-unchanged", &bal0, &w.balances(), &what);
            }
        }
    }
}

/// a vAMM deployed without a margin engine: nobody holds the engine role, every sender of the
/// engine-only entry points must be rejected with nothing changed
fn no_engine(which: u8) -> impl Fn() {
    move || {
        symrt::set_full(true);
        let roles = [Role::Owner, Role::Pauser, Role::Engine, Role::Ins, Role::Trader, Role::Stranger];
        for (k, role) in roles.iter().enumerate() {
            let mut w = setup(false, "vamm", false);
            let d = w.d;
            let v2 = w.instantiate_vamm_with(w.cfg.decimals, false);
            // let funding become due
            w.next_block(90_000);
            let now = w.now();
            w.set_oracle(Uint128::new(11 * d), now);
            let who = sender_addr(&w, *role);
            let msg = match which {
                0 => VammExec::SwapInput { direction: Direction::AddToAmm, quote_asset_amount: v(&format!("n{}.amt", k), 10 * d), base_asset_limit: Uint128::zero(), can_go_over_fluctuation: true },
                1 => VammExec::SwapOutput { direction: Direction::RemoveFromAmm, base_asset_amount: v(&format!("n{}.amt", k), d), quote_asset_limit: Uint128::zero() },
                _ => VammExec::SettleFunding {},
            };
            let before = w.app.dump_wasm_raw(&v2);
            let t = w.exec(&who, &v2, &msg, &[]);
            let what = format!("engine-less vAMM entry#{} sender={:?}", which, role);
            prove_d("C09/non-role-sender-rejected", Cond::from_bool(!t.ok), what.clone());
            prove_d("C09/rejected-call-leaves-storage-unchanged", Cond::from_bool(before == w.app.dump_wasm_raw(&v2)), what);
        }
    }
}

/// a vAMM deployed without an insurance fund, whose ownership was then transferred: only the new
/// owner may open / close it (both flag values, in both states); in particular the deployer keeps
/// no right through an unset insurance-fund role
fn no_insurance_fund(transferred: bool) -> impl Fn() {
    move || {
        symrt::set_full(true);
        let roles = [Role::Owner, Role::Pauser, Role::Engine, Role::Ins, Role::Trader, Role::Stranger, Role::NewOwner];
        for role in roles.iter() {
            for start_open in [true, false] {
                for flag in [true, false] {
                    let mut w = setup(false, "vamm", false);
                    let v2 = w.instantiate_vamm_opts(w.cfg.decimals, true, false);
                    if !start_open {
                        assert!(w.exec(OWNER, &v2, &VammExec::SetOpen { open: false }, &[]).ok);
                    }
                    if transferred {
                        assert!(w.exec(OWNER, &v2, &VammExec::UpdateOwner { owner: "owner2".into() }, &[]).ok);
                    }
                    let who = sender_addr(&w, *role);
                    let before = w.app.dump_wasm_raw(&v2);
                    let t = w.exec(&who, &v2, &VammExec::SetOpen { open: flag }, &[]);
                    let owner_now = if transferred { Role::NewOwner } else { Role::Owner };
                    let what = format!("vAMM without insurance fund{}: SetOpen{{{}}} when {} sender={:?}", if transferred { " after ownership transfer" } else { "" }, flag, if start_open { "open" } else { "closed" }, role);
                    if *role != owner_now {
                        prove_d("C09/non-role-sender-rejected", Cond::from_bool(!t.ok), what.clone());
                        prove_d("C09/rejected-call-leaves-storage-unchanged", Cond::from_bool(before == w.app.dump_wasm_raw(&v2)), what);
                    } else if flag != start_open {
                        prove_d("C09/role-holder-not-rejected-for-authorisation", Cond::from_bool(t.ok || !is_auth_error(&t.err)), format!("{} err={}", what, crate::sx::norm(&t.err)));
                    }
                }
            }
        }
    }
}

/// the engine's owner and pauser are one account (the deployment default) when ownership is
/// transferred: the pauser role stays where it was (it only moves through UpdatePauser, sent by
/// the pauser), before and after a later UpdatePauser
fn owner_transfer_keeps_pauser() {
    symrt::set_full(true);
    let mut w = deploy_or_drop(Cfg::base(false, 9));
    let e = w.engine.clone();
    let xfer = |to: &str| EngineExec::UpdateConfig { owner: Some(to.into()), insurance_fund: None, fee_pool: None, initial_margin_ratio: None, maintenance_margin_ratio: None, partial_liquidation_ratio: None, liquidation_fee: None };
    assert!(w.exec(OWNER, &e, &xfer("owner2"), &[]).ok);
    let check = |w: &mut World, pauser: &str, others: &[&str], what: &str| {
        for o in others {
            let dump0 = w.dump();
            let t = w.exec(o, &e, &EngineExec::SetPause { pause: true }, &[]);
            prove_d("C09/non-role-sender-rejected", Cond::from_bool(!t.ok), format!("engine:set_pause sender={} {}", o, what));
            prove_d("C09/rejected-call-leaves-storage-unchanged", Cond::from_bool(dump0 == w.dump()), format!("engine:set_pause sender={} {}", o, what));
            let t = w.exec(o, &e, &EngineExec::UpdatePauser { pauser: "stranger".into() }, &[]);
            prove_d("C09/non-role-sender-rejected", Cond::from_bool(!t.ok), format!("engine:update_pauser sender={} {}", o, what));
            let t = w.exec(o, &e, &EngineExec::AddWhitelist { address: "stranger".into() }, &[]);
            prove_d("C09/non-role-sender-rejected", Cond::from_bool(!t.ok), format!("engine:add_whitelist sender={} {}", o, what));
        }
        let t = w.exec(pauser, &e, &EngineExec::SetPause { pause: true }, &[]);
        prove_d("C09/role-holder-not-rejected-for-authorisation", Cond::from_bool(t.ok || !is_auth_error(&t.err)), format!("engine:set_pause sender={} {} err={}", pauser, what, crate::sx::norm(&t.err)));
        let t = w.exec(pauser, &e, &EngineExec::SetPause { pause: false }, &[]);
        prove_d("C09/role-holder-not-rejected-for-authorisation", Cond::from_bool(t.ok || !is_auth_error(&t.err)), format!("engine:set_pause(false) sender={} {} err={}", pauser, what, crate::sx::norm(&t.err)));
    };
    check(&mut w, OWNER, &["owner2", ALICE, EVE], "after owner -> owner2 (pauser was the old owner)");
    // the pauser (still the old owner) hands the role to owner2; owner2 then transfers ownership on
    assert!(w.exec(OWNER, &e, &EngineExec::UpdatePauser { pauser: "owner2".into() }, &[]).ok);
    assert!(w.exec("owner2", &e, &xfer("owner3"), &[]).ok);
    check(&mut w, "owner2", &[OWNER, "owner3", ALICE], "after owner2 -> owner3 (pauser is owner2)");
}

pub fn scenarios(_seed: u64) -> Vec<Scenario> {
    let mut v = vec![];
    let d = "one privileged entry point x all sender kinds {owner, pauser, engine, insurance fund, vAMM, trader, stranger (+ new owner / new pauser after a role transfer)} on fresh deployments with the repository's own price feed; payload amounts/ratios symbolic over the full range";
    let n = variants().len();
    for i in 0..n {
        let (c, var) = (variants()[i].contract, variants()[i].name);
        v.push(sc("C09", Tier::Quick, &format!("c09.{}.{}", c, var), d, 400, 90, one(i, false, false)));
        v.push(sc("C09", Tier::Quick, &format!("c09.{}.{}.transferred", c, var), d, 400, 90, one(i, false, true)));
        v.push(sc("C09", Tier::Thorough, &format!("c09.{}.{}.native", c, var), d, 400, 90, one(i, true, false)));
    }
    for (k, n) in [(0u8, "swap_input"), (1, "swap_output"), (2, "settle_funding")] {
        v.push(sc("C09", Tier::Quick, &format!("c09.vamm.{}.no-engine-configured", n), "a vAMM instantiated without a margin engine: the engine-only entry point must reject every sender kind", 200, 60, no_engine(k)));
    }
    v.push(sc("C09", Tier::Quick, "c09.vamm.set_open.no-insurance-fund", "a vAMM instantiated without an insurance fund: SetOpen (both values, both states) by every sender kind", 200, 60, no_insurance_fund(false)));
    v.push(sc("C09", Tier::Quick, "c09.vamm.set_open.no-insurance-fund.transferred", "the same after the vAMM's ownership was transferred: the deployer keeps no right", 200, 60, no_insurance_fund(true)));
    v.push(sc("C09", Tier::Quick, "c09.engine.owner-transfer-keeps-pauser", "engine ownership transferred while owner and pauser are one account, twice: the pauser role only moves through UpdatePauser", 50, 60, owner_transfer_keeps_pauser));
    let _ = Addr::unchecked("");
    v
}
