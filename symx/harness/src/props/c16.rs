//! C16 — after a liquidation, no second position action in the same block.
//! Orderings of trades and liquidations within a block and across block boundaries are
//! enumerated (block heights are u64: enumerated, not solver-quantified); dedicated orderings run
//! with symbolic trade amounts.
use super::sc;
use crate::mon;
use crate::sx::Cond;
use crate::tpl::*;
use crate::world::*;
use crate::{Scenario, Tier};
use cosmwasm_std::Uint128;
use margined_perp::margined_engine::Side;
use symrt::prove_d;

#[derive(Clone, Copy, Debug, PartialEq)]
enum Ev {
    Open(&'static str, bool), // trader, buy?
    /// opposite-side open whose notional equals the position's current notional at 1x: the
    /// reversal arm that closes the position out exactly and opens nothing
    Flatten(&'static str),
    Close(&'static str),
    Liq,
    /// PayFunding (funding is due in the staged state: the first one succeeds)
    Fund,
    NextBlock,
}

const ALPHABET: [Ev; 12] = [
    Ev::Fund,
    Ev::Flatten(BOB),
    Ev::Flatten(LIQ),
    Ev::Open(BOB, false),
    Ev::Open(LIQ, true),
    Ev::Open(LIQ, false),
    Ev::Open(EVE, true),
    Ev::Open(ALICE, true),
    Ev::Close(BOB),
    Ev::Close(LIQ),
    Ev::Liq,
    Ev::NextBlock,
];

thread_local! {
    /// liquidation fee of the partial staging: 0 = the fixture's 1%, 1 = zero, 2 = symbolic in [0, 10%]
    static FEE_MODE: std::cell::Cell<u8> = std::cell::Cell::new(0);
    /// partial-liquidation ratio of the partial staging in quarters (1 = 25 %, 4 = exactly 100 %:
    /// the "partial" arm then takes the whole position)
    static RATIO_Q: std::cell::Cell<u128> = std::cell::Cell::new(1);
}

fn ratio100(f: impl Fn()) -> impl Fn() {
    move || {
        RATIO_Q.with(|c| c.set(4));
        f();
        RATIO_Q.with(|c| c.set(1));
    }
}

/// alice 10x long, liquidatable (fully, or partially when `partial`); bob holds the other side
fn staged(partial: bool) -> Run {
    let mut cfg = Cfg::base(false, 9);
    let d = cfg.d();
    cfg.init_ratio = Uint128::new(d / 10);
    if partial {
        cfg.partial_ratio = Uint128::new(d / 4 * RATIO_Q.with(|c| c.get()));
        cfg.liq_fee = match FEE_MODE.with(|m| m.get()) {
            1 => Uint128::zero(),
            2 => crate::sx::var("liq_fee", 0, d / 10, d / 100),
            _ => Uint128::new(d / 100),
        };
    }
    let mut r = Run::new(cfg, Mon::none());
    symrt::set_full(false);
    assert!(r.step(Op::Open { who: ALICE, side: Side::Buy, margin: Uint128::new(25 * d), lev: Uint128::new(10 * d), limit: Uint128::zero(), funds: None }).tx.ok);
    r.w.next_block(15);
    let units = if partial { 5 } else { 45 };
    assert!(r.step(Op::Open { who: BOB, side: Side::Sell, margin: Uint128::new(units * d), lev: Uint128::new(10 * d), limit: Uint128::zero(), funds: None }).tx.ok);
    // more than a funding period later: a settlement is due
    r.w.next_block(90_000);
    let now = r.w.now();
    let d = r.w.d;
    r.w.set_oracle(Uint128::new(10 * d), now);
    r
}

fn run_seq(seq: &[Ev], partial: bool, sym_last: Option<&str>) {
    let mut r = staged(partial);
    let d = r.w.d;
    let mut liq_in_block = false;
    let hist: Vec<String> = seq.iter().map(|e| format!("{:?}", e)).collect();
    for (i, ev) in seq.iter().enumerate() {
        let last = i + 1 == seq.len();
        let what = format!("seq=[{}] at#{}", hist.join(","), i);
        match ev {
            Ev::NextBlock => {
                r.w.next_block(15);
                liq_in_block = false;
            }
            Ev::Fund => {
                r.step(Op::PayFunding { by: EVE });
            }
            Ev::Liq => {
                if FEE_MODE.with(|m| m.get()) == 2 && partial {
                    // explore the liquidation for every fee (incl. a fee that rounds to zero)
                    symrt::set_full(true);
                }
                let t = r.step(Op::Liquidate { by: LIQ, trader: ALICE, limit: Uint128::zero() });
                if t.tx.ok {
                    liq_in_block = true;
                }
            }
            Ev::Open(..) | Ev::Close(..) | Ev::Flatten(..) => {
                let (who, buy): (&'static str, bool) = match ev {
                    Ev::Open(w, b) => (*w, *b),
                    Ev::Close(w) | Ev::Flatten(w) => (*w, false),
                    _ => unreachable!(),
                };
                let pos = r.w.position(0, who);
                let touched = pos.as_ref().map(|p| p.block_number == r.w.height()).unwrap_or(false);
                let restricted = liq_in_block && touched;
                let dump0 = r.w.dump();
                let bal0 = r.w.balances();
                let t = match ev {
                    Ev::Open(_, _) => {
                        let m = match (last, sym_last) {
                            (true, Some(name)) => {
                                symrt::set_full(true);
                                amount(name, d, false, 4)
                            }
                            _ => Uint128::new(4 * d),
                        };
                        r.step(Op::Open { who, side: if buy { Side::Buy } else { Side::Sell }, margin: m, lev: Uint128::new(2 * d), limit: Uint128::zero(), funds: None })
                    }
                    Ev::Flatten(_) => {
                        // notional of the whole position at the current spot price
                        let n = match (&pos, r.w.unrealized(0, who, margined_perp::margined_engine::PnlCalcOption::SpotPrice)) {
                            (Some(p), Ok(u)) if !p.size.value.is_zero() => Some((u.position_notional, p.size.negative)),
                            _ => None,
                        };
                        match n {
                            Some((notional, is_short)) => r.step(Op::Open { who, side: if is_short { Side::Buy } else { Side::Sell }, margin: notional, lev: Uint128::new(d), limit: Uint128::zero(), funds: None }),
                            None => continue,
                        }
                    }
                    _ => {
                        if last && sym_last.is_some() {
                            symrt::set_full(true);
                        }
                        r.step(Op::Close { who, limit: Uint128::zero() })
                    }
                };
                // the per-position block stamp is maintained: whatever record the engine keeps for
                // the sender after a successful action of theirs carries the current block
                if t.tx.ok {
                    if let Some(p1) = r.w.position(0, who) {
                        prove_d("C16/successful-action-stamps-the-position-with-the-current-block", Cond::from_bool(p1.block_number == r.w.height()), format!("{} stamp={} height={}", what, p1.block_number, r.w.height()));
                    }
                }
                if restricted {
                    prove_d("C16/second-action-in-liquidation-block-rejected", Cond::from_bool(!t.tx.ok), what.clone());
                    mon::dump_unchanged("C16/rejected-second-action-changes-no-storage", &dump0, &r.w.dump(), &what);
                    mon::balances_unchanged("C16/rejected-second-action-moves-no-collateral", &bal0, &r.w.balances(), &what);
                } else {
                    prove_d(
                        "C16/untouched-traders-and-later-blocks-not-restricted",
                        Cond::from_bool(t.tx.ok || !t.tx.err.contains("Only one action allowed")),
                        format!("{} liq_in_block={} touched={}", what, liq_in_block, touched),
                    );
                }
            }
        }
    }
}

/// every sequence of `len` events from the alphabet whose index is in the residue class
fn enumerate(len: usize, stride: usize, offset: usize, partial: bool) -> impl Fn() {
    move || {
        let n = ALPHABET.len();
        if FEE_MODE.with(|m| m.get()) == 2 {
            FEE_MODE.with(|m| m.set(0));
        }
        let total = n.pow(len as u32);
        let mut idx = offset;
        while idx < total {
            let mut k = idx;
            let mut seq = vec![];
            for _ in 0..len {
                seq.push(ALPHABET[k % n]);
                k /= n;
            }
            // only sequences containing a liquidation are interesting
            if seq.contains(&Ev::Liq) {
                run_seq(&seq, partial, None);
            }
            idx += stride;
        }
    }
}

fn dedicated(seq: Vec<Ev>, partial: bool) -> impl Fn() {
    move || {
        // the liquidation fee of the partial staging is symbolic (down to a fee of zero)
        FEE_MODE.with(|m| m.set(if partial { 2 } else { 0 }));
        run_seq(&seq, partial, Some("amt"))
    }
}

fn enumerate_zero_fee(len: usize, stride: usize, offset: usize) -> impl Fn() {
    let f = enumerate(len, stride, offset, true);
    move || {
        FEE_MODE.with(|m| m.set(1));
        f()
    }
}

/// two registered vAMMs: a liquidation on vAMM 0 must not restrict a trader acting twice on
/// vAMM 1 in that block, and must restrict a second action on vAMM 0; `which` = the vAMM of the
/// two actions by bob
fn two_vamms(which: usize, partial: bool) -> impl Fn() {
    move || {
        let mut cfg = Cfg::base(false, 9);
        let d = cfg.d();
        cfg.n_vamms = 2;
        cfg.init_ratio = Uint128::new(d / 10);
        if partial {
            cfg.partial_ratio = Uint128::new(d / 4);
            cfg.liq_fee = Uint128::new(d / 100);
        }
        let mut r = Run::new(cfg, Mon::none());
        symrt::set_full(false);
        let l = Uint128::new(10 * d);
        assert!(r.step(Op::Open { who: ALICE, side: Side::Buy, margin: Uint128::new(25 * d), lev: l, limit: Uint128::zero(), funds: None }).tx.ok);
        r.w.next_block(15);
        let units = if partial { 5 } else { 45 };
        assert!(r.step(Op::Open { who: CAROL, side: Side::Sell, margin: Uint128::new(units * d), lev: l, limit: Uint128::zero(), funds: None }).tx.ok);
        r.w.next_block(1000);
        // the liquidation block: bob acts on `which`, alice is liquidated on vAMM 0, bob acts again
        let two = Uint128::new(2 * d);
        r.vi = which;
        assert!(r.step(Op::Open { who: BOB, side: Side::Sell, margin: Uint128::new(4 * d), lev: two, limit: Uint128::zero(), funds: None }).tx.ok);
        r.vi = 0;
        let t = r.step(Op::Liquidate { by: LIQ, trader: ALICE, limit: Uint128::zero() });
        if !t.tx.ok {
            symrt::log_event(format!("liquidation failed: {}", crate::sx::norm(&t.tx.err)));
            return;
        }
        symrt::set_full(true);
        r.vi = which;
        let m = amount("amt", d, false, 3);
        let dump0 = r.w.dump();
        let t = r.step(Op::Open { who: BOB, side: Side::Sell, margin: m, lev: two, limit: Uint128::zero(), funds: None });
        let what = format!("liquidation on vAMM 0, bob's two actions on vAMM {} in that block", which);
        if which == 0 {
            prove_d("C16/second-action-in-liquidation-block-rejected", Cond::from_bool(!t.tx.ok), what.clone());
            mon::dump_unchanged("C16/rejected-second-action-changes-no-storage", &dump0, &r.w.dump(), &what);
        } else {
            prove_d("C16/untouched-traders-and-later-blocks-not-restricted", Cond::from_bool(t.tx.ok || !t.tx.err.contains("Only one action allowed")), format!("{} err={}", what, crate::sx::norm(&t.tx.err)));
        }
        let t = r.step(Op::Close { who: BOB, limit: Uint128::zero() });
        if which == 0 {
            prove_d("C16/second-action-in-liquidation-block-rejected", Cond::from_bool(!t.tx.ok), format!("{} (close)", what));
        } else {
            prove_d("C16/untouched-traders-and-later-blocks-not-restricted", Cond::from_bool(t.tx.ok || !t.tx.err.contains("Only one action allowed")), format!("{} (close) err={}", what, crate::sx::norm(&t.tx.err)));
        }
        r.vi = 0;
    }
}

/// a PARTIAL close (tight price band, fraction 25%) as the first action in a liquidation block:
/// it stamps the position like any other action, so a second action in that block is rejected;
/// `liq_first`: the liquidation comes before / after the partial close
fn pclose_then_second_action(liq_first: bool) -> impl Fn() {
    move || {
        FEE_MODE.with(|m| m.set(0));
        let mut r = staged(true);
        let d = r.w.d;
        // (the band is configured in the block before the one under test)
        // (5%: closing bob's whole position would leave it, the 25% fraction does not)
        assert!(r.w.update_vamm(0, None, None, None, None, Some(Uint128::new(d / 20)), None).ok);
        r.w.next_block(15);
        if liq_first {
            if !r.step(Op::Liquidate { by: LIQ, trader: ALICE, limit: Uint128::zero() }).tx.ok {
                return;
            }
        }
        let size0 = r.w.position(0, BOB).map(|p| p.size.value);
        let t = r.step(Op::Close { who: BOB, limit: Uint128::zero() });
        if !t.tx.ok {
            symrt::log_event(format!("first close failed: {}", crate::sx::norm(&t.tx.err)));
            return;
        }
        let what = format!("partial close by bob {} the liquidation", if liq_first { "after" } else { "before" });
        if let Some(p1) = r.w.position(0, BOB) {
            prove_d("C16/successful-action-stamps-the-position-with-the-current-block", Cond::from_bool(p1.block_number == r.w.height()), format!("{} stamp={} height={}", what, p1.block_number, r.w.height()));
            symrt::log_event(format!("partial close: size {} -> {}", size0.map(|v| v.to_string()).unwrap_or_default(), p1.size.value));
        }
        if !liq_first {
            if !r.step(Op::Liquidate { by: LIQ, trader: ALICE, limit: Uint128::zero() }).tx.ok {
                return;
            }
        }
        symrt::set_full(true);
        let dump0 = r.w.dump();
        let t = r.step(Op::Close { who: BOB, limit: Uint128::zero() });
        prove_d("C16/second-action-in-liquidation-block-rejected", Cond::from_bool(!t.tx.ok), format!("{}: second close", what));
        mon::dump_unchanged("C16/rejected-second-action-changes-no-storage", &dump0, &r.w.dump(), &what);
        let m = amount("amt", d, false, 3);
        let t = r.step(Op::Open { who: BOB, side: Side::Sell, margin: m, lev: Uint128::new(2 * d), limit: Uint128::zero(), funds: None });
        prove_d("C16/second-action-in-liquidation-block-rejected", Cond::from_bool(!t.tx.ok), format!("{}: open", what));
        r.w.next_block(15);
        let t = r.step(Op::Close { who: BOB, limit: Uint128::zero() });
        prove_d("C16/untouched-traders-and-later-blocks-not-restricted", Cond::from_bool(t.tx.ok || !t.tx.err.contains("Only one action allowed")), format!("{}: next block err={}", what, crate::sx::norm(&t.tx.err)));
    }
}

/// the second action is a ClosePosition that takes the PARTIAL arm (whole close would leave the
/// band): eve (small, shallow under water) is partially liquidated inside the band, carol (large)
/// topped up her short earlier in that block; her close must be rejected like any second action
fn pclose_as_second_action() {
    let mut cfg = Cfg::base(false, 9);
    let d = cfg.d();
    cfg.init_ratio = Uint128::new(d / 10);
    cfg.partial_ratio = Uint128::new(d / 4);
    cfg.liq_fee = Uint128::new(d / 100);
    let mut r = Run::new(cfg, Mon::none());
    symrt::set_full(false);
    assert!(r.step(Op::Open { who: EVE, side: Side::Buy, margin: Uint128::new(25 * d / 10), lev: Uint128::new(10 * d), limit: Uint128::zero(), funds: None }).tx.ok);
    r.w.next_block(15);
    assert!(r.step(Op::Open { who: CAROL, side: Side::Sell, margin: Uint128::new(20 * d), lev: Uint128::new(2 * d), limit: Uint128::zero(), funds: None }).tx.ok);
    r.w.next_block(1000);
    assert!(r.w.update_vamm(0, None, None, None, None, Some(Uint128::new(d / 20)), None).ok);
    r.w.next_block(15);
    // the block under test
    assert!(r.step(Op::Open { who: CAROL, side: Side::Sell, margin: Uint128::new(d / 10), lev: Uint128::new(d), limit: Uint128::zero(), funds: None }).tx.ok);
    let t = r.step(Op::Liquidate { by: LIQ, trader: EVE, limit: Uint128::zero() });
    if !t.tx.ok {
        symrt::log_event(format!("liquidation failed: {}", crate::sx::norm(&t.tx.err)));
        return;
    }
    let over = r.w.over_fluct(0, margined_perp::margined_vamm::Direction::RemoveFromAmm, r.w.position(0, CAROL).unwrap().size.value).unwrap_or(false);
    symrt::log_event(format!("whole close would leave the band: {}", over));
    symrt::set_full(true);
    let dump0 = r.w.dump();
    let t = r.step(Op::Close { who: CAROL, limit: Uint128::zero() });
    let what = format!("carol topped up, eve liquidated, carol closes (partial arm: {})", over);
    prove_d("C16/second-action-in-liquidation-block-rejected", Cond::from_bool(!t.tx.ok), what.clone());
    mon::dump_unchanged("C16/rejected-second-action-changes-no-storage", &dump0, &r.w.dump(), &what);
}

pub fn scenarios(seed: u64) -> Vec<Scenario> {
    let mut v = vec![];
    let de = "staged liquidatable position; all event sequences over {open by bob/liquidator(long,short)/bystander/alice, close by bob/liquidator, liquidate alice, next block} containing a liquidation; concrete amounts (pure enumeration of orderings and block boundaries)";
    for partial in [false, true] {
        let tag = if partial { "partial" } else { "full" };
        v.push(sc("C16", Tier::Quick, &format!("c16.enum.len3.{}", tag), de, 5, 150, enumerate(3, 1, 0, partial)));
        v.push(sc("C16", Tier::Quick, &format!("c16.enum.len4.sample.{}", tag), de, 5, 150, enumerate(4, 23, (seed as usize) % 23, partial)));
        for part in 0..8usize {
            v.push(sc("C16", Tier::Thorough, &format!("c16.enum.len4.{}.part{}", tag, part), de, 5, 900, enumerate(4, 8, part, partial)));
        }
    }
    v.push(sc("C16", Tier::Quick, "c16.enum.len3.partial-zero-fee", de, 5, 150, enumerate_zero_fee(3, 1, 0)));
    v.push(sc("C16", Tier::Thorough, "c16.enum.len4.sample.partial-zero-fee", de, 5, 300, enumerate_zero_fee(4, 23, (seed as usize) % 23)));
    v.push(sc("C16", Tier::Quick, "c16.pclose.as-second-action", "a large trader tops up in the liquidation block, a small position is partially liquidated inside the 5% band, then the large trader's ClosePosition (which would take the partial arm) must be rejected", 50, 60, pclose_as_second_action));
    v.push(sc("C16", Tier::Quick, "c16.pclose.before-liq", "a partial close (5% price band + 25% fraction) is the first action of a trader in a block in which a liquidation follows: the record is stamped, a second action is rejected", 200, 90, pclose_then_second_action(false)));
    v.push(sc("C16", Tier::Thorough, "c16.pclose.after-liq", "the same with the liquidation first (it usually leaves the band, which rejects the close for that reason)", 200, 90, pclose_then_second_action(true)));
    for which in 0..2usize {
        for partial in [false, true] {
            v.push(sc("C16", Tier::Quick, &format!("c16.two-vamms.actions-on-vamm{}.{}", which, if partial { "partial" } else { "full" }), "two registered vAMMs: a liquidation on vAMM 0; a trader acting twice in that block is restricted on vAMM 0 only", 200, 90, two_vamms(which, partial)));
        }
    }
    let dd = "dedicated orderings with the last trade's amount (and, for partial liquidations, the liquidation fee down to zero) symbolic";
    use Ev::*;
    let ded: Vec<(&str, Vec<Ev>)> = vec![
        ("liqopens-liq-liqcloses", vec![Open(LIQ, true), Liq, Close(LIQ)]),
        ("liqopens-liq-liqopens", vec![Open(LIQ, false), Liq, Open(LIQ, false)]),
        ("bobtrades-liq-bobtrades", vec![Open(BOB, false), Liq, Open(BOB, false)]),
        ("liq-bobtrades", vec![Liq, Open(BOB, false)]),
        ("liq-bystander", vec![Liq, Open(EVE, true)]),
        ("liqopens-liq-next-liqopens", vec![Open(LIQ, true), Liq, NextBlock, Open(LIQ, true)]),
        ("liq-alice-reopens", vec![Liq, Open(ALICE, true)]),
        ("liq-bobflattens-bobreopens", vec![Liq, Flatten(BOB), Open(BOB, false)]),
        ("liqopens-liq-fund-liqcloses", vec![Open(LIQ, true), Liq, Fund, Close(LIQ)]),
        ("bobtrades-liq-fund-bobtrades", vec![Open(BOB, false), Liq, Fund, Open(BOB, false)]),
        ("liqopens-next-liq-liqflattens-liqreopens", vec![Open(LIQ, false), NextBlock, Liq, Flatten(LIQ), Open(LIQ, false)]),
    ];
    for (n, seq) in ded {
        for partial in [false, true] {
            v.push(sc("C16", Tier::Quick, &format!("c16.sym.{}.{}", n, if partial { "partial" } else { "full" }), dd, 300, 90, dedicated(seq.clone(), partial)));
        }
        if matches!(n, "liqopens-liq-liqcloses" | "bobtrades-liq-bobtrades" | "liq-bobflattens-bobreopens") {
            v.push(sc("C16", Tier::Quick, &format!("c16.sym.{}.partial.ratio100", n), "as the .partial scenario with the partial-liquidation ratio at exactly 100 % (the partial arm takes the whole position)", 300, 90, ratio100(dedicated(seq.clone(), true))));
        }
    }
    v.push(sc("C16", Tier::Quick, "c16.enum.len3.partial.ratio100", de, 5, 150, ratio100(enumerate(3, 1, 0, true))));
    v
}
