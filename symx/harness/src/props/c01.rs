//! C01 — vAMM curve conservation. The vAMM is deployed alone with a plain account as its margin
//! engine; initial reserves are instantiate parameters, so every reserve pair (each >= one whole
//! unit) is reachable in zero steps and one symbolic swap from it is the exact inductive step.
use super::sc;
use crate::mon;
use crate::sx::var;
use crate::world::*;
use crate::{Scenario, Tier};
use cosmwasm_std::Uint128;
use margined_perp::margined_vamm::{Direction, ExecuteMsg as VammExec};
use symrt::VAR_MAX;

#[derive(Clone, Copy, PartialEq)]
pub enum Kind {
    Input,
    Output,
}

pub fn swap_msg(kind: Kind, dir: Direction, amount: Uint128, limit: Uint128, over: bool) -> VammExec {
    match kind {
        Kind::Input => VammExec::SwapInput { direction: dir, quote_asset_amount: amount, base_asset_limit: limit, can_go_over_fluctuation: over },
        Kind::Output => VammExec::SwapOutput { direction: dir, base_asset_amount: amount, quote_asset_limit: limit },
    }
}

pub fn vamm_only(decimals: u8, fluct_sym: bool, hi: u128) -> World {
    let d = pow10(decimals);
    let mut cfg = Cfg::base(false, decimals);
    cfg.vamm_engine_is_owner = true;
    cfg.x0 = var("x0", d, hi, 1_000 * d);
    cfg.y0 = var("y0", d, hi, 100 * d);
    if fluct_sym {
        cfg.fluct = var("fluct", 0, d, d / 100);
    }
    match World::deploy(cfg) {
        Ok(w) => w,
        Err(e) => {
            symrt::log_event(format!("deploy rejected: {}", e));
            std::panic::panic_any(symrt::InfeasiblePath)
        }
    }
}

fn kname(k: Kind) -> &'static str {
    if k == Kind::Input {
        "in"
    } else {
        "out"
    }
}
fn dname(d: &Direction) -> &'static str {
    if *d == Direction::AddToAmm {
        "add"
    } else {
        "rem"
    }
}

/// `steps` symbolic swaps from an arbitrary reserve pair; the last `full` steps are explored
/// exhaustively, the earlier ones follow the seeded witness (an open region of inputs)
fn seq(decimals: u8, steps: Vec<(Kind, Direction)>, fluct_sym: bool, full_from: usize, seeds: Vec<u128>) -> impl Fn() {
    seq_r(decimals, steps, fluct_sym, full_from, seeds, 0)
}

/// `between`: 1 = between the swaps the owner closes the market and opens it again; 2 = the owner
/// re-points the margin_engine setting at another account and back
fn seq_r(decimals: u8, steps: Vec<(Kind, Direction)>, fluct_sym: bool, full_from: usize, seeds: Vec<u128>, between: u8) -> impl Fn() {
    move || {
        let d = pow10(decimals);
        let mut w = vamm_only(decimals, fluct_sym, VAR_MAX);
        let y0 = w.cfg.y0;
        let mut hist = vec![w.vamm_state(0)];
        for (i, (k, dir)) in steps.iter().enumerate() {
            symrt::set_full(i >= full_from);
            let seed = seeds.get(i).copied().unwrap_or(10) * d;
            let amt = var(&format!("amt{}", i), 0, VAR_MAX, seed);
            let lim = var(&format!("lim{}", i), 0, VAR_MAX, 0);
            let pre = w.vamm_state(0);
            let what = format!("swap_{}:{}", kname(*k), dname(dir));
            let t = w.vamm_exec(OWNER, 0, &swap_msg(*k, dir.clone(), amt, lim, i % 2 == 1));
            let post = w.vamm_state(0);
            w.observe();
            mon::c01_step(&pre, &post, t.ok, y0, d, &what);
            // whenever the net position returns to an earlier value (with the base reserve at
            // least one whole unit there) the quote reserve is at least what it was then
            if i >= 1 {
                for (j, h) in hist.iter().enumerate() {
                    use crate::sx::{c, s, si};
                    let same = si(&h.total_position_size).eq(si(&post.total_position_size));
                    let big = s(h.base_asset_reserve).ge(c(d));
                    symrt::prove_d(
                        "C01/net-position-returns=>quote-not-lower",
                        same.and(big).implies(s(post.quote_asset_reserve).ge(s(h.quote_asset_reserve))),
                        format!("{} vs state {}", what, j),
                    );
                }
            }
            hist.push(post);
            if i + 1 < steps.len() {
                w.next_block(15);
                if between == 1 {
                    symrt::set_full(false);
                    w.vamm_exec(OWNER, 0, &VammExec::SetOpen { open: false });
                    w.next_block(15);
                    w.vamm_exec(OWNER, 0, &VammExec::SetOpen { open: true });
                }
                if between == 2 {
                    symrt::set_full(false);
                    for to in [EVE, OWNER] {
                        let m = VammExec::UpdateConfig { base_asset_holding_cap: None, open_interest_notional_cap: None, toll_ratio: None, spread_ratio: None, fluctuation_limit_ratio: None, margin_engine: Some(to.into()), insurance_fund: None, pricefeed: None, spot_price_twap_interval: None };
                        w.vamm_exec(OWNER, 0, &m);
                    }
                }
            }
        }
    }
}

pub fn scenarios(seed: u64) -> Vec<Scenario> {
    use Direction::*;
    use Kind::*;
    let mut v = vec![];
    let desc1 = "vAMM alone; x0,y0 in [10^dec, 2^128-2^32), amount and limit in [0, 2^128-2^32); one swap explored exhaustively (all overflow / limit / zero / remainder branches)";
    for dec in [6u8, 9u8] {
        for (k, dir) in [(Input, AddToAmm), (Input, RemoveFromAmm), (Output, AddToAmm), (Output, RemoveFromAmm)] {
            let tier = if dec == 9 { Tier::Quick } else { Tier::Thorough };
            v.push(sc("C01", tier, &format!("c01.one.{}.{}.d{}", kname(k), dname(&dir), dec), desc1, 400, 240, seq(dec, vec![(k, dir)], false, 0, vec![10])));
        }
    }
    // with a symbolic fluctuation limit (the band check runs before the reserves move)
    for (k, dir) in [(Input, AddToAmm), (Output, AddToAmm)] {
        let tier = if k == Output { Tier::Quick } else { Tier::Thorough };
        v.push(sc("C01", tier, &format!("c01.one.{}.{}.fluct", kname(k), dname(&dir)), "as c01.one with fluctuation limit symbolic in [0, 10^9]", 600, 240, seq(9, vec![(k, dir)], true, 0, vec![10])));
    }
    // two-step sequences: first step concolic (seeded), second exhaustive
    let s1 = 5 + (seed % 7) as u128;
    let s2 = 3 + (seed % 5) as u128;
    let pairs: Vec<((Kind, Direction), (Kind, Direction))> = vec![
        ((Input, AddToAmm), (Output, AddToAmm)),
        ((Input, RemoveFromAmm), (Output, RemoveFromAmm)),
        ((Input, AddToAmm), (Input, RemoveFromAmm)),
        ((Output, RemoveFromAmm), (Input, AddToAmm)),
    ];
    for (a, b) in pairs {
        let name = format!("c01.two.{}{}-{}{}", kname(a.0), dname(&a.1), kname(b.0), dname(&b.1));
        let tier = if a.0 == Input && b.0 == Input { Tier::Thorough } else { Tier::Quick };
        v.push(sc("C01", tier, &name, "two swaps, amounts/limits/reserves symbolic; first swap follows the seeded witness path, second explored exhaustively; includes the return-to-earlier-net-position clause", 300, 240, seq(9, vec![a, b], false, 1, vec![s1, s2])));
    }
    for (a, b) in [((Input, AddToAmm), (Output, AddToAmm)), ((Output, RemoveFromAmm), (Input, AddToAmm))] {
        let name = format!("c01.two.reopen.{}{}-{}{}", kname(a.0), dname(&a.1), kname(b.0), dname(&b.1));
        v.push(sc("C01", Tier::Quick, &name, "two swaps with the market closed and re-opened by the owner in between (SetOpen false / true); second swap explored exhaustively", 300, 240, seq_r(9, vec![a.clone(), b.clone()], false, 1, vec![s1, s2], 1)));
        let name = format!("c01.two.engine-switch.{}{}-{}{}", kname(a.0), dname(&a.1), kname(b.0), dname(&b.1));
        v.push(sc("C01", Tier::Quick, &name, "two swaps; in between the owner re-points the vAMM's margin_engine setting at another account and back", 300, 240, seq_r(9, vec![a, b], false, 1, vec![s1, s2], 2)));
    }
    // thorough: both steps exhaustive, and three-step sequences
    for (a, b) in [((Input, AddToAmm), (Output, AddToAmm)), ((Output, RemoveFromAmm), (Input, AddToAmm)), ((Input, RemoveFromAmm), (Input, AddToAmm)), ((Output, AddToAmm), (Output, RemoveFromAmm))] {
        let name = format!("c01.two-full.{}{}-{}{}", kname(a.0), dname(&a.1), kname(b.0), dname(&b.1));
        v.push(sc("C01", Tier::Thorough, &name, "two swaps, both explored exhaustively", 3000, 900, seq(9, vec![a, b], false, 0, vec![s1, s2])));
    }
    v.push(sc(
        "C01",
        Tier::Thorough,
        "c01.three.inadd-outadd-inrem",
        "three swaps, first two seeded, last exhaustive",
        600,
        600,
        seq(9, vec![(Input, AddToAmm), (Output, AddToAmm), (Input, RemoveFromAmm)], false, 2, vec![s1, s2, 2]),
    ));
    v
}
