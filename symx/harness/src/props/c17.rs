//! C17 — quoted amounts equal executed amounts; slippage limits are honoured.
//! vAMM alone (all reserve pairs, amounts and limits symbolic over the full range) and through the
//! engine (the limit carried by the vAMM sub-message is read from the delivered message).
use super::c01::{swap_msg, vamm_only, Kind};
use super::sc;
use crate::hist::P;
use crate::sx::{self, c, s, si, Cond, SInt};
use crate::tpl::*;
use crate::world::*;
use crate::{Scenario, Tier};
use cosmwasm_std::Uint128;
use margined_perp::margined_engine::Side;
use margined_perp::margined_vamm::Direction;
use symrt::{prove_d, VAR_MAX};

thread_local! {
    /// the vAMM-alone deployment charges fees (toll 1 %, spread 1 %): limits are about the amounts
    /// exchanged with the curve, whatever the fee configuration
    static FEES: std::cell::Cell<bool> = std::cell::Cell::new(false);
}

fn with_fees(f: impl Fn()) -> impl Fn() {
    move || {
        FEES.with(|c| c.set(true));
        f();
        FEES.with(|c| c.set(false));
    }
}

fn vamm_swap(kind: Kind, dir: Direction, dec: u8, fluct: bool) -> impl Fn() {
    vamm_swap_h(kind, dir, dec, fluct, false)
}

/// `history`: two earlier swaps in earlier blocks within the TWAP window, so that the reserve
/// snapshots (and hence every time-weighted figure) differ from the current reserves
fn vamm_swap_h(kind: Kind, dir: Direction, dec: u8, fluct: bool, history: bool) -> impl Fn() {
    move || {
        let d = pow10(dec);
        let mut w = vamm_only(dec, fluct, VAR_MAX);
        if FEES.with(|c| c.get()) {
            assert!(w.update_vamm(0, None, None, Some(Uint128::new(d / 100)), Some(Uint128::new(d / 100)), None, None).ok);
        }
        if history {
            symrt::set_full(false);
            w.next_block(60);
            w.vamm_exec(OWNER, 0, &swap_msg(Kind::Input, Direction::AddToAmm, Uint128::new(30 * d), Uint128::zero(), true));
            w.next_block(120);
            w.vamm_exec(OWNER, 0, &swap_msg(Kind::Output, Direction::AddToAmm, Uint128::new(d), Uint128::zero(), true));
            w.next_block(20);
        }
        symrt::set_full(true);
        let amt = sx::var("amt", 0, VAR_MAX, 10 * d);
        let lim = sx::var("lim", 0, VAR_MAX, 0);
        let pre = w.vamm_state(0);
        let quote = match kind {
            Kind::Input => w.input_amount(0, dir.clone(), amt),
            Kind::Output => w.output_amount(0, dir.clone(), amt),
        };
        let what = format!("swap_{}:{:?}", if kind == Kind::Input { "input" } else { "output" }, dir);
        let t = w.vamm_exec(OWNER, 0, &swap_msg(kind, dir.clone(), amt, lim, true));
        let post = w.vamm_state(0);
        w.observe();
        let (x0, y0, x1, y1) = (s(pre.quote_asset_reserve), s(pre.base_asset_reserve), s(post.quote_asset_reserve), s(post.base_asset_reserve));
        if !t.ok {
            crate::mon::vamm_state_eq("C17/failed-swap-changes-nothing", &pre, &post, &what);
            // a rejection for the limit must be justified by the quote
            if t.err.contains("asset amount limit") {
                match &quote {
                    Ok(q) => {
                        let viol = limit_ok(kind, &dir, s(*q), s(lim)).not();
                        prove_d("C17/limit-rejection-only-when-limit-violated", viol.and(s(lim).ne(c(0))), what.clone());
                    }
                    Err(_) => {
                        prove_d("C17/limit-rejection-with-failing-quote", Cond::False, what.clone());
                    }
                }
            }
            return;
        }
        let q = match quote {
            Ok(q) => q,
            Err(e) => {
                prove_d("C17/swap-executes-only-if-quote-succeeds", Cond::False, format!("{} quote error {}", what, sx::norm(&e)));
                return;
            }
        };
        // the requested side moves by exactly the requested amount, the other side by the quote
        let (dx, dy) = match (kind, &dir) {
            (Kind::Input, Direction::AddToAmm) => (x1.sub(x0).eq(s(amt)), y0.sub(y1).eq(s(q))),
            (Kind::Input, Direction::RemoveFromAmm) => (x0.sub(x1).eq(s(amt)), y1.sub(y0).eq(s(q))),
            (Kind::Output, Direction::AddToAmm) => (y1.sub(y0).eq(s(amt)), x0.sub(x1).eq(s(q))),
            (Kind::Output, Direction::RemoveFromAmm) => (y0.sub(y1).eq(s(amt)), x1.sub(x0).eq(s(q))),
        };
        let (req, oth) = if kind == Kind::Input { (dx, dy) } else { (dy, dx) };
        prove_d("C17/requested-side-moves-by-requested-amount", req, what.clone());
        prove_d("C17/other-side-moves-by-quoted-amount", oth, what.clone());
        // reported in the event attributes
        let (ka, kq) = if kind == Kind::Input { ("quote_asset_amount", "base_asset_amount") } else { ("base_asset_amount", "quote_asset_amount") };
        match (t.attr(ka).and_then(|v| sx::parse_num(&v)), t.attr(kq).and_then(|v| sx::parse_num(&v))) {
            (Some(a), Some(b)) => {
                prove_d("C17/event-reports-executed-amounts", a.eq(s(amt)).and(b.eq(s(q))), what.clone());
            }
            _ => {
                prove_d("C17/event-reports-executed-amounts", Cond::False, format!("{} attributes missing", what));
            }
        }
        // net position moves by the base amount, signed
        let base = if kind == Kind::Input { s(q) } else { s(amt) };
        let base_leaves_amm = matches!((kind, &dir), (Kind::Input, Direction::AddToAmm) | (Kind::Output, Direction::RemoveFromAmm));
        let dt = si(&post.total_position_size).sub(si(&pre.total_position_size));
        prove_d("C17/net-position-moves-by-base-amount", if base_leaves_amm { dt.eq(base) } else { dt.eq(base.neg()) }, what.clone());
        // a non-zero limit was satisfied (the class of the input is part of the finding signature)
        let class = if amt.is_zero() { "zero-amount" } else { "nonzero-amount" };
        prove_d("C17/executed-swap-satisfies-limit", s(lim).eq(c(0)).or(limit_ok(kind, &dir, s(q), s(lim))), format!("{} {}", what, class));
    }
}

/// limit semantics: receive at least (when receiving base or quote), give at most (when owing base
/// or paying quote)
fn limit_ok(kind: Kind, dir: &Direction, exchanged: SInt, lim: SInt) -> Cond {
    match (kind, dir) {
        (Kind::Input, Direction::AddToAmm) => exchanged.ge(lim),     // receives base
        (Kind::Input, Direction::RemoveFromAmm) => exchanged.le(lim), // owes base
        (Kind::Output, Direction::AddToAmm) => exchanged.ge(lim),    // gives base, receives quote
        (Kind::Output, Direction::RemoveFromAmm) => exchanged.le(lim), // receives base, pays quote
    }
}

fn limit_of(msg: &serde_json::Value) -> Option<(String, SInt)> {
    for (variant, key) in [("swap_input", "base_asset_limit"), ("swap_output", "quote_asset_limit")] {
        if let Some(m) = msg.get(variant) {
            return m.get(key).and_then(|v| v.as_str()).and_then(sx::parse_num).map(|l| (variant.to_string(), l));
        }
    }
    None
}

/// engine: the caller's limit reaches the vAMM unchanged on open / increase / reduce / whole close
fn engine_limit(side: Side, second: u8) -> impl Fn() {
    move || {
        let p = P::new("C17", side.clone(), 0);
        let mut cfg = p.cfg();
        if second == 4 {
            // a partial-close fraction of 100%: ClosePosition closes the whole position even when
            // doing so leaves the price band
            cfg.partial_ratio = Uint128::new(cfg.d());
        }
        let mut r = p.run_cfg(cfg);
        let d = r.w.d;
        symrt::set_full(false);
        let lim = amount("lim", d, true, 0);
        let check = |t: &StepRec, what: &str, must_carry: bool| {
            let ms = t.tx.msgs_to("vamm");
            if ms.is_empty() {
                return;
            }
            if let Some((_, l)) = limit_of(&ms[0]) {
                if must_carry {
                    prove_d("C17/engine-forwards-callers-limit-unchanged", l.eq(s(lim)), what.to_string());
                }
            } else {
                prove_d("C17/engine-forwards-callers-limit-unchanged", Cond::False, format!("{}: no swap message", what));
            }
        };
        if second == 0 {
            symrt::set_full(true);
            let m = amount("m1", d, false, 20);
            let t = r.step(Op::Open { who: ALICE, side: side.clone(), margin: m, lev: Uint128::new(2 * d), limit: lim, funds: None });
            check(&t, "open-fresh", true);
            if t.tx.ok {
                // the limit was satisfied by the size obtained
                let sz = crate::mon::size_of(&t.post.pos[&(0, ALICE)]);
                let okc = if side == Side::Buy { sz.ge(s(lim)) } else { sz.neg().le(s(lim)) };
                prove_d("C17/engine-open-satisfies-limit", s(lim).eq(c(0)).or(okc), "open-fresh".into());
            }
            return;
        }
        let t = r.step(Op::Open { who: ALICE, side: side.clone(), margin: Uint128::new(30 * d), lev: Uint128::new(3 * d), limit: Uint128::zero(), funds: None });
        if !t.tx.ok {
            return;
        }
        r.w.next_block(15);
        if second == 5 {
            // another trader moves the price in alice's favour: for the next 15 minutes the spot
            // value of her position exceeds its TWAP value
            let t = r.step(Op::Open { who: BOB, side: side.clone(), margin: Uint128::new(50 * d), lev: Uint128::new(2 * d), limit: Uint128::zero(), funds: None });
            if !t.tx.ok {
                return;
            }
            r.w.next_block(15);
        }
        symrt::set_full(true);
        match second {
            5 => {
                // an opposite order worth less than the position's SPOT value only reduces it, and a
                // reducing trade carries the caller's limit
                let pos = r.w.position(0, ALICE).unwrap();
                let q = r.w.output_amount(0, if side == Side::Buy { Direction::AddToAmm } else { Direction::RemoveFromAmm }, pos.size.value).ok();
                let m = amount("m2", d, false, 46);
                let lev = Uint128::new(2 * d);
                let t = r.step(Op::Open { who: ALICE, side: opp(&side), margin: m, lev, limit: lim, funds: None });
                let ms = t.tx.msgs_to("vamm");
                if let (Some(q), Some(first)) = (q, ms.first()) {
                    let n = s(m).mul(s(lev)).div_e(c(d));
                    let is_reduce_msg = first.get("swap_input").is_some();
                    prove_d("C17/order-below-spot-value-takes-the-reducing-arm", n.lt(s(q)).implies(Cond::from_bool(is_reduce_msg)), "reduce-after-move".to_string());
                    if is_reduce_msg {
                        check(&t, "reduce-after-move", true);
                    }
                }
            }
            1 => {
                let m = amount("m2", d, false, 10);
                let t = r.step(Op::Open { who: ALICE, side: side.clone(), margin: m, lev: Uint128::new(2 * d), limit: lim, funds: None });
                check(&t, "increase", true);
            }
            2 => {
                // opposite side: reduce while the old position is larger, reversal otherwise (the
                // statement only covers the reducing arm)
                let m = amount("m2", d, false, 10);
                let t = r.step(Op::Open { who: ALICE, side: opp(&side), margin: m, lev: Uint128::new(2 * d), limit: lim, funds: None });
                let reducing = t.tx.msgs_to("vamm").first().map(|m| m.get("swap_input").is_some()).unwrap_or(false);
                check(&t, "reduce", reducing);
            }
            4 => {
                // a tight band set in the block before: the whole close leaves it
                let f = crate::sx::var("fluct", 1, d, d / 1000);
                assert!(r.w.update_vamm(0, None, None, None, None, Some(f), None).ok);
                r.w.next_block(15);
                let q = r.w.output_amount(0, if side == Side::Buy { Direction::AddToAmm } else { Direction::RemoveFromAmm }, t.post.pos[&(0, ALICE)].as_ref().unwrap().size.value).ok();
                let x0 = r.w.vamm_state(0).quote_asset_reserve;
                let t = r.step(Op::Close { who: ALICE, limit: lim });
                let whole = t.tx.ok && t.post.pos[&(0, ALICE)].is_none();
                check(&t, "close-whole-over-the-band", true);
                if let (true, Some(q)) = (whole, q) {
                    // the executed amount is the quoted one and satisfies the caller's limit
                    let x1 = r.w.vamm_state(0).quote_asset_reserve;
                    prove_d("C17/whole-close-exchanges-the-quoted-amount", s(x0).sub(s(x1)).abs().eq(s(q)), "close-whole-over-the-band".into());
                    let okc = if side == Side::Buy { s(q).ge(s(lim)) } else { s(q).le(s(lim)) };
                    prove_d("C17/engine-whole-close-satisfies-limit", s(lim).eq(c(0)).or(okc), "close-whole-over-the-band".into());
                }
            }
            _ => {
                let q = r.w.output_amount(0, if side == Side::Buy { Direction::AddToAmm } else { Direction::RemoveFromAmm }, t.post.pos[&(0, ALICE)].as_ref().unwrap().size.value).ok();
                let t = r.step(Op::Close { who: ALICE, limit: lim });
                check(&t, "close-whole", true);
                if let (true, Some(q)) = (t.tx.ok, q) {
                    let okc = if side == Side::Buy { s(q).ge(s(lim)) } else { s(q).le(s(lim)) };
                    prove_d("C17/engine-whole-close-satisfies-limit", s(lim).eq(c(0)).or(okc), "close-whole".into());
                }
            }
        }
    }
}

/// engine: a WHOLE liquidation (partial-liquidation ratio 0) forwards the liquidator's limit to
/// the vAMM unchanged, and executes only if the limit is satisfied by the quoted amount
fn engine_liquidation_limit(side: Side, units: u128) -> impl Fn() {
    move || {
        let p = P::new("C17", side.clone(), 0);
        let mut cfg = p.cfg();
        let d = cfg.d();
        cfg.init_ratio = Uint128::new(d / 10);
        cfg.maint_ratio = crate::tpl::ratio("maint", d, d / 20);
        cfg.liq_fee = crate::tpl::ratio("liq_fee", d, d / 40);
        symrt::assume(s(cfg.maint_ratio).le(c(d / 10)));
        let mut r = p.run_cfg(cfg);
        symrt::set_full(false);
        let l = Uint128::new(10 * d);
        if !r.step(Op::Open { who: ALICE, side: side.clone(), margin: Uint128::new(25 * d), lev: l, limit: Uint128::zero(), funds: None }).tx.ok {
            return;
        }
        r.w.next_block(15);
        if !r.step(Op::Open { who: BOB, side: opp(&side), margin: Uint128::new(units * d), lev: l, limit: Uint128::zero(), funds: None }).tx.ok {
            return;
        }
        r.w.next_block(1000);
        symrt::set_full(true);
        let lim = amount("lim", d, true, 0);
        let pos = r.w.position(0, ALICE).unwrap();
        let q = r.w.output_amount(0, if side == Side::Buy { Direction::AddToAmm } else { Direction::RemoveFromAmm }, pos.size.value).ok();
        let t = r.step(Op::Liquidate { by: LIQ, trader: ALICE, limit: lim });
        let ms = t.tx.msgs_to("vamm");
        // the swap message is the last message delivered to the vAMM (queries are not messages)
        if let Some(m) = ms.iter().find(|m| m.get("swap_output").is_some() || m.get("swap_input").is_some()) {
            if let Some((_, l)) = limit_of(m) {
                prove_d("C17/engine-forwards-callers-limit-unchanged", l.eq(s(lim)), "liquidate-whole".to_string());
            }
        }
        if let (true, Some(q)) = (t.tx.ok && t.post.pos[&(0, ALICE)].is_none(), q) {
            let okc = if side == Side::Buy { s(q).ge(s(lim)) } else { s(q).le(s(lim)) };
            prove_d("C17/engine-whole-liquidation-satisfies-limit", s(lim).eq(c(0)).or(okc), "liquidate-whole".into());
        }
    }
}

pub fn scenarios(_seed: u64) -> Vec<Scenario> {
    use Direction::*;
    use Kind::*;
    let mut v = vec![];
    let d1 = "vAMM alone; x0,y0 in [10^dec, 2^128-2^32), amount and limit in [0, 2^128-2^32): quote query before == state delta and event after; limit semantics with the limit symbolic (below / at / above the executed amount)";
    for (k, dir, n) in [(Input, AddToAmm, "in.add"), (Input, RemoveFromAmm, "in.rem"), (Output, AddToAmm, "out.add"), (Output, RemoveFromAmm, "out.rem")] {
        v.push(sc("C17", Tier::Quick, &format!("c17.vamm.{}", n), d1, 600, 120, vamm_swap(k, dir.clone(), 9, false)));
        v.push(sc("C17", Tier::Quick, &format!("c17.vamm.{}.after-history", n), "as above after two earlier swaps in earlier blocks inside the TWAP window (reserve snapshots differ from the current reserves)", 600, 120, vamm_swap_h(k, dir.clone(), 9, false, true)));
        v.push(sc("C17", Tier::Quick, &format!("c17.vamm.{}.fees", n), "as above on a vAMM configured with a 1 % toll and a 1 % spread", 600, 120, with_fees(vamm_swap(k, dir.clone(), 9, false))));
        v.push(sc("C17", Tier::Thorough, &format!("c17.vamm.{}.d6", n), d1, 600, 300, vamm_swap(k, dir.clone(), 6, false)));
        v.push(sc("C17", Tier::Thorough, &format!("c17.vamm.{}.fluct", n), "as above with a symbolic fluctuation limit", 1500, 600, vamm_swap(k, dir, 9, true)));
    }
    let d2 = "engine: OpenPosition (fresh / increase / reduce) and whole ClosePosition with a symbolic limit; the limit inside the delivered vAMM sub-message equals the caller's";
    for (side, sn) in [(Side::Buy, "long"), (Side::Sell, "short")] {
        for (k, kn) in [(0u8, "fresh"), (1, "increase"), (2, "reduce"), (3, "close"), (4, "close.over-band.ratio1"), (5, "reduce.after-move")] {
            v.push(sc("C17", Tier::Quick, &format!("c17.engine.{}.{}", kn, sn), d2, 400, 120, engine_limit(side.clone(), k)));
        }
        for (rn, ru) in [("shallow", 5u128), ("deep", 45)] {
            v.push(sc("C17", Tier::Quick, &format!("c17.engine.liquidate-whole.{}.{}", rn, sn), "engine: a whole liquidation (partial ratio 0; maintenance ratio and liquidation fee symbolic) with a symbolic limit: the limit inside the delivered vAMM sub-message equals the liquidator's and is satisfied when the liquidation executes", 400, 120, engine_liquidation_limit(side.clone(), ru)));
        }
    }
    v
}
