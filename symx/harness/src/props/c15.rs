//! C15 — per-block price band. The harness records the spot price at the end of every block
//! itself; the fluctuation limit, trade sizes and (for closes) the position size are symbolic, so
//! the solver places trades on either side of the band edge. Block patterns are enumerated.
use super::sc;
use crate::sx::{c, s, var, Cond, SInt};
use crate::tpl::*;
use crate::world::*;
use crate::{Scenario, Tier};
use cosmwasm_std::Uint128;
use margined_perp::margined_engine::Side;
use margined_perp::margined_vamm::Direction;
use symrt::prove_d;

struct Band {
    upper: SInt,
    lower: SInt,
}
fn band(last: Uint128, f: Uint128, d: u128) -> Band {
    Band { upper: s(last).mul(c(d).add(s(f))).div_e(c(d)), lower: s(last).mul(c(d).sub(s(f))).div_e(c(d)) }
}
fn inside(p: SInt, b: &Band) -> Cond {
    b.lower.le(p).and(p.le(b.upper))
}

/// OpenPosition under a symbolic limit. `pattern`: 0 = first trade of the block, 1 = after another
/// trader moved the price inside the band in the same block, 2 = opposite-side open (reduce/reverse)
thread_local! {
    /// number of blocks WITHOUT any trade between the reference block and the block under test
    static QUIET: std::cell::Cell<u64> = std::cell::Cell::new(0);
}

/// the scenario with `n` trade-free blocks before the block under test (the band is still centred
/// on the price at the end of the last block that traded)
fn quiet(n: u64, f: impl Fn()) -> impl Fn() {
    move || {
        QUIET.with(|q| q.set(n));
        f();
        QUIET.with(|q| q.set(0));
    }
}

fn quiet_blocks(r: &mut Run) {
    for _ in 0..QUIET.with(|q| q.get()) {
        r.w.next_block(15);
    }
}

fn open_in_band(side: Side, pattern: u8, seed: u64) -> impl Fn() {
    open_in_band_t(side, pattern, seed, false)
}

/// `subsecond`: the block under test starts 100 ms after the previous one (same second)
fn open_in_band_t(side: Side, pattern: u8, seed: u64, subsecond: bool) -> impl Fn() {
    move || {
        let cfg = Cfg::base(false, 9);
        let d = cfg.d();
        let mut r = Run::new(cfg, Mon::none());
        symrt::set_full(false);
        // an existing position for alice when the pattern reduces / reverses it
        if pattern == 2 {
            let m0 = Uint128::new((10 + (seed % 7) as u128) * d);
            assert!(r.step(Op::Open { who: ALICE, side: opp(&side), margin: m0, lev: Uint128::new(2 * d), limit: Uint128::zero(), funds: None }).tx.ok);
            r.w.next_block(15);
        }
        let f = var("fluct", 1, d, d / 20);
        assert!(r.w.update_vamm(0, None, None, None, None, Some(f), None).ok);
        // a trade in the previous block so that a reference snapshot exists
        assert!(r.step(Op::Open { who: BOB, side: Side::Buy, margin: Uint128::new(d), lev: Uint128::new(d), limit: Uint128::zero(), funds: None }).tx.ok || true);
        let last = r.w.spot_price(0).unwrap();
        if subsecond {
            r.w.next_block_ns(0, 100_000_000);
        } else {
            r.w.next_block(15);
        }
        quiet_blocks(&mut r);
        if pattern == 1 || pattern == 3 {
            // drift inside the band within the block (may be rejected on some paths: fine);
            // pattern 3: the drift goes AGAINST the opener, whose trade then crosses the reference price
            let md = amount("drift", d, false, 5);
            let ds = if pattern == 1 { side.clone() } else { opp(&side) };
            r.step(Op::Open { who: EVE, side: ds, margin: md, lev: Uint128::new(d), limit: Uint128::zero(), funds: None });
        }
        symrt::set_full(true);
        let b = band(last, f, d);
        let spot0 = r.w.spot_price(0).unwrap();
        let m = amount("m", d, false, 30);
        let rec = r.step(Op::Open { who: ALICE, side: side.clone(), margin: m, lev: Uint128::new(2 * d), limit: Uint128::zero(), funds: None });
        let what = format!("open pattern={}", pattern);
        let holds = rec.post.pos[&(0, ALICE)].as_ref().map(|p| !crate::sx::si(&p.size).eq(c(0)).eq_true()).unwrap_or(false);
        if rec.tx.ok && holds {
            let spot1 = r.w.spot_price(0).unwrap();
            prove_d("C15/successful-open-leaves-price-inside-band", inside(s(spot1), &b), what.clone());
        }
        if rec.tx.ok {
            // the trade was not accepted from a price already outside the band
            prove_d("C15/open-rejected-when-price-already-outside-band", inside(s(spot0), &b), what);
        }
    }
}

/// bob's whole close (allowed to leave the band once per block) pushes the price outside the
/// band; an OpenPosition by alice later in the same block must be rejected, whichever direction
fn open_after_close_left_band(bob_side: Side, alice_side: Side, seed: u64) -> impl Fn() {
    move || {
        let mut cfg = Cfg::base(false, 9);
        let d = cfg.d();
        cfg.partial_ratio = Uint128::new(d); // 100%: ClosePosition always closes the whole position
        let mut r = Run::new(cfg, Mon::none());
        symrt::set_full(false);
        let m0 = Uint128::new((40 + (seed % 20) as u128) * d);
        assert!(r.step(Op::Open { who: BOB, side: bob_side.clone(), margin: m0, lev: Uint128::new(2 * d), limit: Uint128::zero(), funds: None }).tx.ok);
        let f = var("fluct", 1, d, d / 50);
        assert!(r.w.update_vamm(0, None, None, None, None, Some(f), None).ok);
        let last = r.w.spot_price(0).unwrap();
        r.w.next_block(15);
        let t = r.step(Op::Close { who: BOB, limit: Uint128::zero() });
        if !t.tx.ok {
            return;
        }
        symrt::set_full(true);
        let b = band(last, f, d);
        let spot0 = r.w.spot_price(0).unwrap();
        let m = amount("m", d, false, 10);
        let rec = r.step(Op::Open { who: ALICE, side: alice_side.clone(), margin: m, lev: Uint128::new(2 * d), limit: Uint128::zero(), funds: None });
        let what = format!("open after a close left the band (closer {:?}, opener {:?})", bob_side, alice_side);
        if rec.tx.ok {
            prove_d("C15/open-rejected-when-price-already-outside-band", inside(s(spot0), &b), what.clone());
            let spot1 = r.w.spot_price(0).unwrap();
            prove_d("C15/successful-open-leaves-price-inside-band", inside(s(spot1), &b), what);
        }
    }
}

trait EqTrue {
    fn eq_true(&self) -> bool;
}
impl EqTrue for Cond {
    /// forks on the condition (used for the concrete "does the trader hold a position" test)
    fn eq_true(&self) -> bool {
        symrt::decide(self.clone())
    }
}

/// ClosePosition under a symbolic limit and a partial-close fraction < 100%
fn close_in_band(side: Side, drift: bool, seed: u64) -> impl Fn() {
    close_in_band_l(side, drift, seed, false)
}

/// `sym_lim`: ClosePosition carries a symbolic quote limit (seeded where it is satisfied: the
/// whole-or-fraction decision must not depend on it)
fn close_in_band_l(side: Side, drift: bool, seed: u64, sym_lim: bool) -> impl Fn() {
    move || {
        let mut cfg = Cfg::base(false, 9);
        let d = cfg.d();
        cfg.partial_ratio = Uint128::new(d / 4);
        let mut r = Run::new(cfg, Mon::none());
        symrt::set_full(false);
        // the position is built while there is no limit
        // one position-shaping amount symbolic at a time: with a drift trade the position is seeded
        let m0 = if drift { Uint128::new((13 + (seed % 30) as u128) * d) } else { amount("m0", d, false, 40 + (seed % 20) as u128) };
        let t = r.step(Op::Open { who: ALICE, side: side.clone(), margin: m0, lev: Uint128::new(2 * d), limit: Uint128::zero(), funds: None });
        if !t.tx.ok {
            return;
        }
        let f = var("fluct", 1, d, d / 20);
        assert!(r.w.update_vamm(0, None, None, None, None, Some(f), None).ok);
        let last = r.w.spot_price(0).unwrap();
        r.w.next_block(15);
        quiet_blocks(&mut r);
        if drift {
            let md = amount("drift", d, false, 2);
            r.step(Op::Open { who: EVE, side: opp(&side), margin: md, lev: Uint128::new(d), limit: Uint128::zero(), funds: None });
        }
        symrt::set_full(true);
        let b = band(last, f, d);
        let pos0 = match r.w.position(0, ALICE) {
            Some(p) => p,
            None => return,
        };
        let st = r.w.vamm_state(0);
        let size = pos0.size.value;
        let base_dir = if side == Side::Buy { Direction::AddToAmm } else { Direction::RemoveFromAmm };
        // price after a whole close, from the vAMM's own quote
        let q = r.w.output_amount(0, base_dir.clone(), size);
        let frac = match symrt::catch(|| size.checked_mul(Uint128::new(d / 4)).ok().and_then(|x| x.checked_div(Uint128::new(d)).ok())) {
            Ok(Some(v)) => v,
            _ => return,
        };
        // what the configured fraction executes: quote for the fraction, then that quote swapped back
        let frac_quote = r.w.output_amount(0, base_dir.clone(), frac);
        let frac_base = match &frac_quote {
            Ok(fq) => r.w.input_amount(0, if side == Side::Buy { Direction::RemoveFromAmm } else { Direction::AddToAmm }, *fq).ok(),
            Err(_) => None,
        };
        let lim = if sym_lim { var("qlim", 0, symrt::VAR_MAX, if side == Side::Buy { 1 } else { 1_000_000 * d }) } else { Uint128::zero() };
        let rec = r.step(Op::Close { who: ALICE, limit: lim });
        let what = format!("close side={:?} drift={}{}", side, drift, if sym_lim { " with-limit" } else { "" });
        if !rec.tx.ok {
            return;
        }
        let q = match q {
            Ok(q) => q,
            Err(_) => return,
        };
        let (x, y) = (s(st.quote_asset_reserve), s(st.base_asset_reserve));
        let price_after = if side == Side::Buy { x.sub(s(q)).mul(c(d)).div_e(y.add(s(size))) } else { x.add(s(q)).mul(c(d)).div_e(y.sub(s(size))) };
        let whole_ok = inside(price_after, &b);
        match &rec.post.pos[&(0, ALICE)] {
            None => {
                prove_d("C15/whole-close-only-if-price-stays-inside-band", whole_ok, what);
            }
            Some(p1) => {
                // (a partial close while a whole close would have stayed inside the band is not
                // excluded by the statement: "whole only if inside; otherwise the fraction")
                if let Some(fb) = frac_base {
                    // the fraction is floor(|size| x ratio) base, executed as the quote the vAMM
                    // asks for it swapped back in: exact by the vAMM's own quotes
                    let delta = s(size).sub(s(p1.size.value));
                    prove_d("C15/partial-close-closes-exactly-the-configured-fraction", delta.eq(s(fb)), what.clone());
                    prove_d("C15/partial-close-keeps-direction-and-shrinks", Cond::from_bool(p1.direction == pos0.direction && p1.size.negative == pos0.size.negative).and(s(p1.size.value).lt(s(size))), what);
                }
            }
        }
    }
}

pub fn scenarios(seed: u64) -> Vec<Scenario> {
    let mut v = vec![];
    let d1 = "fluctuation limit symbolic in (0,1], trade size symbolic; band computed by the harness from the previous block's final price";
    for (side, sn) in [(Side::Buy, "long"), (Side::Sell, "short")] {
        for (p, pn) in [(0u8, "first"), (1, "afterdrift"), (2, "opposite"), (3, "after-opposite-drift")] {
            let tier = if p == 1 { Tier::Thorough } else { Tier::Quick };
            v.push(sc("C15", tier, &format!("c15.open.{}.{}", pn, sn), d1, 500, 150, open_in_band(side.clone(), p, seed)));
        }
        v.push(sc("C15", Tier::Quick, &format!("c15.open.afterdrift.subsecond.{}", sn), "as c15.open.afterdrift with the block starting 100 ms after the previous one (same second)", 500, 150, open_in_band_t(side.clone(), 1, seed, true)));
        for (aside, an) in [(Side::Buy, "buy"), (Side::Sell, "sell")] {
            v.push(sc("C15", Tier::Quick, &format!("c15.open.after-close-left-band.{}.{}", sn, an), "a whole close of a seeded position under a symbolic limit leaves the band; a later open in the same block (symbolic size, either side) must be rejected", 400, 120, open_after_close_left_band(side.clone(), aside, seed)));
        }
        let dq = "as the scenario of the same name with one / four blocks without any trade before the block under test";
        v.push(sc("C15", Tier::Quick, &format!("c15.open.plain.quiet1.{}", sn), dq, 500, 150, quiet(1, open_in_band(side.clone(), 0, seed))));
        v.push(sc("C15", Tier::Quick, &format!("c15.open.reverse.quiet4.{}", sn), dq, 500, 150, quiet(4, open_in_band(side.clone(), 2, seed))));
        v.push(sc("C15", Tier::Quick, &format!("c15.close.quiet1.{}", sn), dq, 500, 150, quiet(1, close_in_band(side.clone(), false, seed))));
        v.push(sc("C15", Tier::Thorough, &format!("c15.close.afterdrift.quiet4.{}", sn), dq, 800, 150, quiet(4, close_in_band(side.clone(), true, seed))));
        v.push(sc("C15", Tier::Quick, &format!("c15.close.{}", sn), "position size, fluctuation limit symbolic; partial-close fraction 25%; whole close iff the price after a whole close (vAMM quote) stays inside the band", 500, 150, close_in_band(side.clone(), false, seed)));
        v.push(sc("C15", Tier::Quick, &format!("c15.close.{}.lim", sn), "as c15.close with a symbolic quote limit on the ClosePosition", 800, 150, close_in_band_l(side.clone(), false, seed, true)));
        v.push(sc("C15", Tier::Quick, &format!("c15.close.afterdrift.{}", sn), "as c15.close after another trader moved the price (toward the close's own direction) inside the band in the same block", 800, 150, close_in_band(side.clone(), true, seed)));
    }
    v
}
