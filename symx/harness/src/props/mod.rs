//! Scenario registry: one module per property.
use crate::{Scenario, Tier};
pub mod c01;
pub mod c09;
pub mod c10;
pub mod c11;
pub mod c13;
pub mod c14;
pub mod c15;
pub mod c16;
pub mod c17;
pub mod c18;
pub mod c19;
pub mod c20;
pub mod shared;

pub fn sc(prop: &'static str, tier: Tier, name: &str, desc: &str, max_paths: u64, max_secs: u64, run: impl Fn() + 'static) -> Scenario {
    Scenario { name: name.to_string(), prop, tier, desc: desc.to_string(), max_paths, max_secs, run: Box::new(run) }
}

pub fn all(seed: u64) -> Vec<Scenario> {
    let mut v = vec![];
    v.extend(c01::scenarios(seed));
    v.extend(c09::scenarios(seed));
    v.extend(c10::scenarios(seed));
    v.extend(c11::scenarios(seed));
    v.extend(c13::scenarios(seed));
    v.extend(c14::scenarios(seed));
    v.extend(c15::scenarios(seed));
    v.extend(c16::scenarios(seed));
    v.extend(c17::scenarios(seed));
    v.extend(c18::scenarios(seed));
    v.extend(c19::scenarios(seed));
    v.extend(c20::scenarios(seed));
    for p in ["C02", "C03", "C08", "C10"] {
        v.extend(shared::shared(p, seed));
    }
    for p in ["C02", "C03", "C04", "C05", "C06", "C07", "C08", "C10", "C11", "C12"] {
        v.extend(shared::generated(p, seed, 30, 200));
    }
    // C01 as a monitor on engine-driven histories
    v.extend(shared::generated("C01", seed, 20, 200));
    v.extend(shared::c01_engine(seed));
    v.extend(shared::faults(seed));
    v.extend(shared::fees(seed));
    v.extend(shared::c04(seed));
    v.extend(shared::c05(seed));
    v.extend(shared::liq("C06", seed));
    v.extend(shared::liq("C07", seed));
    v
}
