//! C19 (SMT part) — `Integer` against the mathematical integers with symbolic 128-bit magnitudes.
//! Multiplication and truncating division are theory operators here, so the full-width claims that
//! bit-blasting cannot decide (two 128-bit multipliers / dividers) are decided in the Int theory.
//! Signs are enumerated (2 x 2), magnitudes are symbolic over [0, 2^128-2^32), which includes the
//! hand-built negative zero.
use super::sc;
use crate::sx::{c, s, si, var, Cond, SInt};
use crate::{Scenario, Tier};
use cosmwasm_std::Uint128;
use margined_common::integer::Integer;
use std::str::FromStr;
use symrt::{prove_d, VAR_MAX};

thread_local! {
    /// operands of the binary-operation scenarios: symbolic magnitudes (default) or the concrete
    /// boundary grid (code that inspects bits - leading zeros, shifts - cannot run on a symbolic
    /// magnitude; on the grid it runs natively)
    static GRID: std::cell::Cell<bool> = std::cell::Cell::new(false);
}

fn grid() -> Vec<(Integer, Integer, String)> {
    let top = VAR_MAX - 1;
    let ms = [0u128, 1, 2, 3, 1 << 32, (1 << 63) - 1, 1 << 63, (1 << 64) - 1, 1 << 64, (1 << 64) + 1, 1 << 96, (1 << 127) - 1, 1 << 127, (1 << 127) + 1, top - 1, top];
    let mut v = vec![];
    for a in ms {
        for b in ms {
            for na in [false, true] {
                for nb in [false, true] {
                    v.push((Integer { value: Uint128::new(a), negative: na }, Integer { value: Uint128::new(b), negative: nb }, format!("signs({},{}) a={} b={}", na as u8, nb as u8, a, b)));
                }
            }
        }
    }
    v
}

fn arith_boundaries() {
    GRID.with(|g| g.set(true));
    mul();
    div();
    addsub();
    cmp();
    GRID.with(|g| g.set(false));
}

fn operands() -> Vec<(Integer, Integer, String)> {
    if GRID.with(|g| g.get()) {
        return grid();
    }
    let a = var("a", 0, VAR_MAX, 300);
    let b = var("b", 0, VAR_MAX, 7);
    let mut v = vec![];
    for na in [false, true] {
        for nb in [false, true] {
            v.push((Integer { value: a, negative: na }, Integer { value: b, negative: nb }, format!("signs({},{})", na as u8, nb as u8)));
        }
    }
    v
}

/// every observer of `r` agrees with its mathematical value `v`
fn consistent(what: &str, r: Integer, v: SInt, detail: &str) {
    let zero = SInt::zero();
    prove_d(&format!("C19/{}-value", what), si(&r).eq(v), detail.to_string());
    // observers fork on the magnitude; on each path their answer must match the value
    let is_neg = r.is_negative();
    prove_d(&format!("C19/{}-is_negative", what), if is_neg { v.lt(zero) } else { v.ge(zero) }, detail.to_string());
    let eq0 = r == Integer::zero();
    prove_d(&format!("C19/{}-eq-zero", what), if eq0 { v.eq(zero) } else { v.ne(zero) }, detail.to_string());
    let lt0 = r < Integer::zero();
    prove_d(&format!("C19/{}-lt-zero", what), if lt0 { v.lt(zero) } else { v.ge(zero) }, detail.to_string());
    let is0 = r.is_zero();
    prove_d(&format!("C19/{}-is_zero", what), if is0 { v.eq(zero) } else { v.ne(zero) }, detail.to_string());
}

fn mul() {
    for (a, b, d) in operands() {
        let v = si(&a).mul(si(&b));
        match a.checked_mul(b) {
            Ok(r) => consistent("checked_mul", r, v, &d),
            Err(_) => {
                prove_d("C19/checked_mul-fails-only-on-overflow", s(a.value).mul(s(b.value)).gt(c(u128::MAX)), d.clone());
            }
        }
        match symrt::catch(|| a * b) {
            Ok(r) => consistent("mul-op", r, v, &d),
            Err(_) => {
                prove_d("C19/mul-op-panics-only-on-overflow", s(a.value).mul(s(b.value)).gt(c(u128::MAX)), d.clone());
            }
        }
    }
}

fn div() {
    for (a, b, d) in operands() {
        match a.checked_div(b) {
            Ok(r) => {
                // truncating division: |q| = |a| div |b|, sign by the sign rule
                let q = s(a.value).div_e(s(b.value));
                let neg = si(&a).lt(SInt::zero()).iff(si(&b).lt(SInt::zero())).not();
                let v = SInt::ite(neg, q.neg(), q);
                consistent("checked_div", r, v, &d);
                if let Ok(r2) = symrt::catch(|| a / b) {
                    consistent("div-op", r2, v, &d);
                } else {
                    prove_d("C19/div-op-agrees-with-checked", Cond::False, d.clone());
                }
            }
            Err(_) => {
                prove_d("C19/checked_div-fails-only-on-zero-divisor", s(b.value).eq(c(0)), d.clone());
            }
        }
    }
}

fn addsub() {
    for (a, b, d) in operands() {
        for sub in [false, true] {
            let v = if sub { si(&a).sub(si(&b)) } else { si(&a).add(si(&b)) };
            let name = if sub { "sub" } else { "add" };
            let r = if sub { a.checked_sub(b) } else { a.checked_add(b) };
            match r {
                Ok(r) => {
                    consistent(&format!("checked_{}", name), r, v, &d);
                    match symrt::catch(|| if sub { a - b } else { a + b }) {
                        Ok(r2) => consistent(&format!("{}-op", name), r2, v, &d),
                        Err(_) => {
                            prove_d("C19/op-agrees-with-checked", Cond::False, d.clone());
                        }
                    }
                }
                Err(_) => {
                    prove_d(&format!("C19/checked_{}-fails-only-on-overflow", name), v.abs().gt(c(u128::MAX)), d.clone());
                }
            }
        }
    }
}

fn cmp() {
    for (a, b, d) in operands() {
        let (x, y) = (si(&a), si(&b));
        let lt = a < b;
        prove_d("C19/lt", if lt { x.lt(y) } else { x.ge(y) }, d.clone());
        let eq = a == b;
        prove_d("C19/eq", if eq { x.eq(y) } else { x.ne(y) }, d.clone());
        let o = a.cmp(&b);
        let want = match o {
            std::cmp::Ordering::Less => x.lt(y),
            std::cmp::Ordering::Equal => x.eq(y),
            std::cmp::Ordering::Greater => x.gt(y),
        };
        prove_d("C19/cmp", want, d.clone());
        prove_d("C19/partial_cmp=cmp", Cond::from_bool(a.partial_cmp(&b) == Some(o)), d);
    }
}

fn unary_string() {
    let m = var("a", 0, VAR_MAX, 42);
    unary_string_of(m, "");
}

/// the same obligations on concrete boundary magnitudes (0, 1, around 2^63, 2^64, 2^127, the top of
/// the claimed range): the printed form of a symbolic value is a handle, so a parser that takes
/// any route other than `u128` can only be exercised with concrete digits
fn unary_string_boundaries() {
    let top = VAR_MAX - 1;
    for m in [0u128, 1, 9, 10, (1 << 63) - 1, 1 << 63, (1 << 64) - 1, 1 << 64, (1 << 64) + 1, (1 << 127) - 1, 1 << 127, (1 << 127) + 1, top - 1, top] {
        unary_string_of(Uint128::new(m), &format!(" m={}", m));
    }
}

fn unary_string_of(m: Uint128, tag: &str) {
    for neg in [false, true] {
        let a = Integer { value: m, negative: neg };
        let d = format!("sign({}){}", neg as u8, tag);
        let v = si(&a);
        consistent("invert_sign", a.invert_sign(), v.neg(), &d);
        consistent("abs", a.abs(), v.abs(), &d);
        consistent("new_negative", Integer::new_negative(a.value), s(a.value).neg(), &d);
        // decimal string form: sign character, parse gives back an equal value
        let txt = a.to_string();
        let has_minus = txt.starts_with('-');
        prove_d("C19/string-sign", if has_minus { v.lt(SInt::zero()) } else { v.ge(SInt::zero()) }, d.clone());
        match Integer::from_str(&txt) {
            Ok(back) => {
                consistent("parse(print)", back, v, &d);
                let same = back == a;
                prove_d("C19/parse(print(x))==x", Cond::from_bool(same), d.clone());
            }
            Err(_) => {
                prove_d("C19/printed-form-parses", Cond::False, d.clone());
            }
        }
        // serde form is the same string
        let js = String::from_utf8(cosmwasm_std::to_vec(&a).unwrap()).unwrap();
        prove_d("C19/serde-is-quoted-display", Cond::from_bool(js == format!("\"{}\"", txt)), d.clone());
        match cosmwasm_std::from_slice::<Integer>(js.as_bytes()) {
            Ok(back) => consistent("serde-roundtrip", back, v, &d),
            Err(_) => {
                prove_d("C19/serialised-form-deserialises", Cond::False, d.clone());
            }
        }
    }
}

pub fn scenarios(_seed: u64) -> Vec<Scenario> {
    let d = "magnitudes a, b symbolic in [0, 2^128-2^32), all four sign combinations (hand-built -0 included); obligations compare with the mathematical integers";
    vec![
        sc("C19", Tier::Quick, "c19.mul", d, 2000, 120, mul),
        sc("C19", Tier::Quick, "c19.div", d, 2000, 120, div),
        sc("C19", Tier::Quick, "c19.addsub", d, 4000, 120, addsub),
        sc("C19", Tier::Quick, "c19.cmp", d, 2000, 120, cmp),
        sc("C19", Tier::Quick, "c19.unary_string", "magnitude symbolic, both signs: negation, abs, constructors, Display/FromStr/serde round trip", 2000, 120, unary_string),
        sc("C19", Tier::Quick, "c19.arith.boundaries", "mul, div, add, sub, cmp on the concrete grid of 16 boundary magnitudes (0..3, 2^32, 2^63, 2^64 +-1, 2^96, 2^127 +-1, top of the range) squared, all sign combinations", 10, 120, arith_boundaries),
        sc("C19", Tier::Quick, "c19.unary_string.boundaries", "the same on concrete boundary magnitudes (0, 1, 2^63, 2^64, 2^127 +-1, top of the range), both signs", 10, 60, unary_string_boundaries),
    ]
}
