//! C11 — funding settles on schedule, exactly, and is charged once per position.
//! Block times relative to the funding time, funding periods and the number of settlements are
//! enumerated (u64 timestamps are not solver-quantified); oracle price, trade sizes (hence vAMM
//! TWAP and net position of either sign) and balances are symbolic.
use super::sc;
use crate::hist::*;
use crate::sx::{c, s, si, var, Cond};
use crate::tpl::*;
use crate::world::*;
use crate::{Scenario, Tier};
use cosmwasm_std::Uint128;
use margined_perp::margined_engine::Side;
use symrt::prove_d;

/// one PayFunding at `next_funding_time + offset` (offset may be negative), then `more` further
/// attempts at the given offsets relative to the then-current funding time
fn schedule(period: u64, net_long: bool, offsets: Vec<i64>, small_vault: bool, seed: u64) -> impl Fn() {
    move || {
        let mut cfg = Cfg::base(false, 9);
        let d = cfg.d();
        cfg.funding_period = period;
        let mut r = Run::new(cfg, Mon { prop: "C11", ..Mon::none() });
        symrt::set_full(false);
        // alice and bob on opposite sides with different sizes: the net position has either sign
        let (big, small) = (Uint128::new((20 + (seed % 10) as u128) * d), amount("m2", d, false, 8));
        let lev = Uint128::new(if small_vault { 10 * d } else { 2 * d });
        let (sa, sb) = if net_long { (Side::Buy, Side::Sell) } else { (Side::Sell, Side::Buy) };
        assert!(r.step(Op::Open { who: ALICE, side: sa, margin: big, lev, limit: Uint128::zero(), funds: None }).tx.ok);
        r.w.next_block(15);
        if !r.step(Op::Open { who: BOB, side: sb, margin: small, lev, limit: Uint128::zero(), funds: None }).tx.ok {
            return;
        }
        symrt::set_full(true);
        for (k, off) in offsets.iter().enumerate() {
            let st0 = r.w.vamm_state(0);
            let target = (st0.next_funding_time as i64 + off) as u64;
            let now = r.w.now();
            if target > now {
                r.w.next_block(target - now);
            } else {
                r.w.next_block(0);
            }
            let now = r.w.now();
            let price = var(&format!("oracle{}", k), 1, 1_000 * d, (if (seed + k as u64) % 2 == 0 { 9 } else { 12 }) * d);
            r.w.set_oracle(price, now);
            let interval = r.w.vamm_config(0).spot_price_twap_interval;
            let tw_v = r.w.twap_price(0, interval);
            let tw_o = r.w.underlying_twap(0, interval);
            let rec = r.step(Op::PayFunding { by: EVE });
            let what = format!("pay_funding#{} period={} offset={} {}", k, period, off, if rec.tx.ok { "ok" } else { "failed" });
            let on_time = now >= st0.next_funding_time;
            prove_d("C11/pay-funding-succeeds-only-at-or-after-the-funding-time", Cond::from_bool(!rec.tx.ok || on_time), what.clone());
            if !on_time {
                prove_d("C11/pay-funding-before-the-funding-time-fails", Cond::from_bool(!rec.tx.ok), what.clone());
            }
            if !rec.tx.ok {
                continue;
            }
            let st1 = r.w.vamm_state(0);
            prove_d(
                "C11/next-funding-time-at-least-half-a-period-later",
                Cond::from_bool(st1.next_funding_time >= now + period / 2),
                format!("{} next={} now={}", what, st1.next_funding_time, now),
            );
            let (tw_v, tw_o) = match (tw_v, tw_o) {
                (Ok(a), Ok(b)) => (a, b),
                _ => {
                    prove_d("C11/twap-observable-before-settlement", Cond::False, what.clone());
                    continue;
                }
            };
            let fraction = s(tw_v).sub(s(tw_o)).mul(c(period as u128)).div_t(c(86_400));
            let dcum = si(&rec.post.cum[0]).sub(si(&rec.pre.cum[0]));
            prove_d("C11/cumulative-fraction-advances-by-(twap-oracle_twap)*period/day", dcum.eq(fraction), what.clone());
            // collateral moved between vault and insurance fund
            let payment = si(&st0.total_position_size).mul(fraction).div_t(c(d));
            let vault0 = s(rec.pre.bal["engine"]);
            let dv = s(rec.post.bal["engine"]).sub(vault0);
            let di = s(rec.post.bal["insurance_fund"]).sub(s(rec.pre.bal["insurance_fund"]));
            let expect_out = payment.min(vault0); // positive payment: vault -> insurance fund, capped
            prove_d(
                "C11/settlement-moves-exactly-|net*fraction|-between-vault-and-insurance-fund",
                payment.gt(c(0)).and(dv.eq(expect_out.neg())).and(di.eq(expect_out)).or(payment.le(c(0)).and(dv.eq(payment.neg())).and(di.eq(payment))),
                what.clone(),
            );
        }
        // then a position operation: charged once, checkpoint moves (step oracle)
        r.w.next_block(15);
        let b = amount("wd", d, false, 1);
        r.step(Op::Withdraw { who: ALICE, amount: b });
        r.step(Op::Withdraw { who: ALICE, amount: b });
    }
}

pub fn scenarios(seed: u64) -> Vec<Scenario> {
    let mut v = vec![];
    let d = "two opposite positions of different size (net position of either sign, counter-size symbolic), PayFunding at enumerated block times around the funding time for periods {3600, 5400, 18000, 50000, 86400, 172800}, oracle price symbolic per settlement";
    let buffer = |p: u64| (p / 2) as i64;
    // (18000 s and 50000 s do not divide a day; 172800 s is longer than a day)
    for period in [3600u64, 5400, 18_000, 50_000, 86_400, 172_800] {
        for (net_long, nn) in [(true, "netlong"), (false, "netshort")] {
            let tier = if period == 86_400 || net_long { Tier::Quick } else { Tier::Thorough };
            v.push(sc("C11", tier, &format!("c11.sched.p{}.{}.early-ontime", period, nn), d, 400, 120, schedule(period, net_long, vec![-1, 0], false, seed)));
            v.push(sc("C11", tier, &format!("c11.sched.p{}.{}.late-then-buffer", period, nn), d, 400, 120, schedule(period, net_long, vec![1, -buffer(period) + 1, 0], false, seed)));
            v.push(sc("C11", Tier::Thorough, &format!("c11.sched.p{}.{}.three", period, nn), d, 800, 300, schedule(period, net_long, vec![0, 0, period as i64], false, seed)));
        }
    }
    v.push(sc("C11", Tier::Quick, "c11.sched.smallvault.netlong", "as above with 10x positions so that the payment can exceed the vault balance (cap arm)", 400, 120, schedule(86_400, true, vec![0], true, seed)));
    v.push(sc("C11", Tier::Quick, "c11.sched.smallvault.netshort", "as above, net short", 400, 120, schedule(86_400, false, vec![0], true, seed)));
    // position operations after a settlement (shared templates, step oracle)
    let dp = "funding settlement with a symbolic oracle price followed by a position operation: the operation charges exactly (cumulative - checkpoint) x size and moves the checkpoint";
    for (side, _sn) in [(Side::Buy, "long"), (Side::Sell, "short")] {
        let p = P::new("C11", side.clone(), seed);
        let pc = p.clone().concrete_prefix();
        v.push(sc("C11", Tier::Quick, &format!("c11.then.close.{}", p.tag()), dp, 400, 120, t_fund(pc.clone(), 0)));
        v.push(sc("C11", Tier::Quick, &format!("c11.then.withdraw.{}", p.tag()), dp, 400, 120, t_fund(pc.clone(), 1)));
        v.push(sc("C11", Tier::Quick, &format!("c11.then.increase.{}", p.tag()), dp, 400, 120, t_fund(pc.clone(), 2)));
        v.push(sc("C11", Tier::Quick, &format!("c11.then.reverse.{}", p.tag()), dp, 600, 150, t_fund(pc.clone(), 3)));
        v.push(sc("C11", Tier::Quick, &format!("c11.then.pclose.{}", p.tag()), dp, 400, 120, t_fund_pclose(pc.clone())));
        v.push(sc("C11", Tier::Quick, &format!("c11.then.open.fund-again.close.{}", p.tag()), "a position opened after one settlement, a second settlement with its own symbolic oracle price (the premiums may cancel exactly), then both positions are closed", 600, 150, t_fund(pc.clone(), 7)));
        v.push(sc("C11", Tier::Quick, &format!("c11.then.deposit-liq.{}", p.tag()), dp, 400, 120, t_fund(pc.clone(), 4)));
        v.push(sc("C11", Tier::Quick, &format!("c11.two-vamms.{}", p.tag()), "two vAMMs: a settlement on one leaves the other's cumulative fraction and positions alone", 600, 150, t_two_vamms(pc.clone())));
        v.push(sc("C11", Tier::Quick, &format!("c11.then.liquidation.full.{}", p.tag()), dp, 600, 150, t_fund_liq(pc.clone(), false)));
        v.push(sc("C11", Tier::Quick, &format!("c11.then.liquidation.partial.{}", p.tag()), dp, 600, 150, t_fund_liq(pc.clone(), true)));
    }
    v
}
