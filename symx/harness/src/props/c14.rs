//! C14 — pause, closed markets, unregistered markets, registry integrity, emergency shutdown.
//! Flags are finite and enumerated exhaustively; amounts of the attempted operations are symbolic.
use super::sc;
use crate::mon;
use crate::sx::Cond;
use crate::tpl::*;
use crate::world::*;
use crate::{Scenario, Tier};
use cosmwasm_std::Uint128;
use margined_perp::margined_engine::{ExecuteMsg as EngineExec, Side};
use margined_perp::margined_insurance_fund::{AllVammResponse, ExecuteMsg as InsExec, QueryMsg as InsQuery, VammResponse};
use margined_perp::margined_vamm::ExecuteMsg as VammExec;
use symrt::prove_d;

/// alice 10x long under water and liquidatable, funding due; bob holds the other side
fn staged(native: bool) -> Run {
    let mut cfg = Cfg::base(native, if native { 6 } else { 9 });
    let d = cfg.d();
    cfg.init_ratio = Uint128::new(d / 10);
    let mut r = Run::new(cfg, Mon::none());
    symrt::set_full(false);
    let f = |r: &Run, m: u128| if native { Some(native_open_funds(&r.w, Uint128::new(m * d), Uint128::new(10 * d))) } else { None };
    let fa = f(&r, 25);
    assert!(r.step(Op::Open { who: ALICE, side: Side::Buy, margin: Uint128::new(25 * d), lev: Uint128::new(10 * d), limit: Uint128::zero(), funds: fa }).tx.ok);
    r.w.next_block(15);
    let fb = f(&r, 45);
    assert!(r.step(Op::Open { who: BOB, side: Side::Sell, margin: Uint128::new(45 * d), lev: Uint128::new(10 * d), limit: Uint128::zero(), funds: fb }).tx.ok);
    // bob has free collateral to withdraw (otherwise a withdrawal fails for lack of margin anyway)
    let extra = Uint128::new(100 * d);
    assert!(r.step(Op::Deposit { who: BOB, amount: extra, funds: if native { Some(extra) } else { None } }).tx.ok);
    r.w.next_block(86_400);
    let now = r.w.now();
    r.w.set_oracle(Uint128::new(10 * d), now);
    r
}

thread_local! {
    /// `unregistered` variants: the vAMM's OWN insurance_fund setting points at a second fund
    /// instance, which lists it (the engine's fund does not)
    static FOREIGN: std::cell::Cell<bool> = std::cell::Cell::new(false);
}

fn foreign_fund(f: impl Fn()) -> impl Fn() {
    move || {
        FOREIGN.with(|c| c.set(true));
        f();
        FOREIGN.with(|c| c.set(false));
    }
}

fn flags(opk: u8, paused: bool, closed: bool, unregistered: bool, native: bool) -> impl Fn() {
    flags_b(opk, paused, closed, unregistered, native, false)
}

/// `band`: a tight per-block price band and a partial-close / partial-liquidation fraction of 25%
/// are configured before the flags are set, so ClosePosition and Liquidate take their partial arms
/// (swaps that are allowed to leave the band)
fn flags_b(opk: u8, paused: bool, closed: bool, unregistered: bool, native: bool, band: bool) -> impl Fn() {
    move || {
        // twin worlds with the same history: `r` gets the flags, `twin` stays live
        let mut r = staged(native);
        let mut twin = staged(native);
        let d = r.w.d;
        if band {
            for w in [&mut r.w, &mut twin.w] {
                assert!(w.update_vamm(0, None, None, None, None, Some(Uint128::new(d / 1000)), None).ok);
                assert!(w.update_engine(None, None, Some(Uint128::new(d / 4)), None).ok);
            }
        }
        if paused {
            assert!(r.w.engine_exec(OWNER, &EngineExec::SetPause { pause: true }).ok);
        }
        if closed {
            assert!(r.w.vamm_exec(OWNER, 0, &VammExec::SetOpen { open: false }).ok);
        }
        if unregistered {
            let v = r.w.vamms[0].to_string();
            assert!(r.w.ins_exec(OWNER, &InsExec::RemoveVamm { vamm: v.clone() }).ok);
            if FOREIGN.with(|c| c.get()) {
                let fund2 = r.w.instantiate_second_fund();
                assert!(r.w.exec(OWNER, &fund2, &InsExec::AddVamm { vamm: v }, &[]).ok);
                let m = VammExec::UpdateConfig { base_asset_holding_cap: None, open_interest_notional_cap: None, toll_ratio: None, spread_ratio: None, fluctuation_limit_ratio: None, margin_engine: None, insurance_fund: Some(fund2.to_string()), pricefeed: None, spot_price_twap_interval: None };
                assert!(r.w.vamm_exec(OWNER, 0, &m).ok);
            }
        }
        symrt::set_full(true);
        let a = amount("amt", d, false, 3);
        let funds = if native { Some(a) } else { None };
        let op = match opk {
            0 => Op::Open { who: BOB, side: Side::Sell, margin: a, lev: Uint128::new(2 * d), limit: Uint128::zero(), funds: if native { Some(native_open_funds(&r.w, a, Uint128::new(2 * d))) } else { None } },
            1 => Op::Close { who: BOB, limit: Uint128::zero() },
            2 => Op::Deposit { who: BOB, amount: a, funds },
            3 => Op::Withdraw { who: BOB, amount: a },
            4 => Op::Liquidate { by: LIQ, trader: ALICE, limit: Uint128::zero() },
            _ => Op::PayFunding { by: EVE },
        };
        let dump0 = r.w.dump();
        let bal0 = r.w.balances();
        let rec = r.step(op.clone());
        let what = format!("{} paused={} closed={} unregistered={}{}", op.name(), paused, closed, unregistered, if band { " band+partial" } else { "" });
        let trader_op = opk <= 3;
        // vacuity witness on the seeded path: the same operation succeeds on the live twin
        if !(paused && !closed && !unregistered && !trader_op) {
            let t2 = twin.step(op.clone());
            symrt::log_event(format!("live-twin {} ok={}", op.name(), t2.tx.ok));
        }
        if paused && trader_op {
            prove_d("C14/paused-engine-rejects-trader-operations", Cond::from_bool(!rec.tx.ok), what.clone());
            mon::dump_unchanged("C14/paused-rejection-changes-no-storage", &dump0, &r.w.dump(), &what);
            mon::balances_unchanged("C14/paused-rejection-moves-no-collateral", &bal0, &r.w.balances(), &what);
        }
        if closed && opk != 2 {
            prove_d("C14/closed-vamm-no-open-close-liquidate-withdraw-funding", Cond::from_bool(!rec.tx.ok), what.clone());
        }
        if unregistered && matches!(opk, 0 | 3 | 4 | 5) {
            prove_d("C14/unregistered-vamm-no-open-liquidate-withdraw-funding", Cond::from_bool(!rec.tx.ok), what.clone());
        }
        if paused && !closed && !unregistered && !trader_op {
            // Liquidate and PayFunding stay available: same outcome as on the unpaused twin
            let t2 = twin.step(op);
            prove_d("C14/pause-does-not-block-liquidation-or-funding", Cond::from_bool(rec.tx.ok == t2.tx.ok), format!("{} paused-ok={} live-ok={} err={}", what, rec.tx.ok, t2.tx.ok, crate::sx::norm(&rec.tx.err)));
            // ... and the engine is still paused afterwards (nobody sent SetPause{false}): every
            // trader operation keeps failing, in this block and in the next
            for later in [false, true] {
                if later {
                    r.w.next_block(15);
                }
                for k in 0..4u8 {
                    let a2 = Uint128::new(2 * d);
                    let f2 = if native { Some(a2) } else { None };
                    let op2 = match k {
                        0 => Op::Open { who: BOB, side: Side::Sell, margin: a2, lev: Uint128::new(2 * d), limit: Uint128::zero(), funds: if native { Some(native_open_funds(&r.w, a2, Uint128::new(2 * d))) } else { None } },
                        1 => Op::Deposit { who: BOB, amount: a2, funds: f2 },
                        2 => Op::Withdraw { who: BOB, amount: a2 },
                        _ => Op::Close { who: BOB, limit: Uint128::zero() },
                    };
                    let t3 = r.step(op2.clone());
                    prove_d("C14/paused-engine-rejects-trader-operations", Cond::from_bool(!t3.tx.ok), format!("{} after the paused {}{}", op2.name(), rec.op.name(), if later { " (next block)" } else { "" }));
                }
            }
            // (with the partial fraction configured the staged, deeply under-water liquidation runs
            // into the recorded C07 finding on both twins; only the comparison applies there)
            if !band {
                prove_d("C14/liquidation-and-funding-succeed-on-the-staged-state", Cond::from_bool(t2.tx.ok), format!("{} live err={}", what, crate::sx::norm(&t2.tx.err)));
            }
        }
    }
}

fn registry_ok(w: &World, cands: &[String], what: &str) {
    registry_ok_e(w, cands, what, None)
}

/// `expected`: the membership the owner's successful AddVamm / RemoveVamm calls add up to
fn registry_ok_e(w: &World, cands: &[String], what: &str, expected: Option<&std::collections::BTreeSet<String>>) {
    let list: Vec<String> = match w.q::<AllVammResponse, _>(&w.ins, &InsQuery::GetAllVamm { limit: None }) {
        Ok(r) => r.vamm_list.iter().map(|a| a.to_string()).collect(),
        Err(_) => vec![], // "No vAMMs are stored" before the first add
    };
    let mut uniq = list.clone();
    uniq.sort();
    uniq.dedup();
    prove_d("C14/registry-has-no-duplicates", Cond::from_bool(uniq.len() == list.len()), format!("{} list={:?}", what, list));
    prove_d("C14/registry-holds-at-most-three", Cond::from_bool(list.len() <= 3), format!("{} len={}", what, list.len()));
    if let Some(exp) = expected {
        let got: std::collections::BTreeSet<String> = list.iter().cloned().collect();
        prove_d("C14/registry-holds-exactly-what-was-added-and-not-removed", Cond::from_bool(&got == exp), format!("{} list={:?} expected={:?}", what, list, exp));
    }
    for c in cands {
        let is = w.q::<VammResponse, _>(&w.ins, &InsQuery::IsVamm { vamm: c.clone() }).map(|r| r.is_vamm).unwrap_or(false);
        prove_d("C14/membership-query-agrees-with-registry", Cond::from_bool(is == list.contains(c)), format!("{} vamm={} is_vamm={} listed={}", what, c, is, list.contains(c)));
    }
}

/// all AddVamm / RemoveVamm histories up to `len` over 4 vAMM addresses (concrete enumeration)
fn registry(len: usize, stride: usize, offset: usize) -> impl Fn() {
    move || {
        let total = 8usize.pow(len as u32);
        let mut idx = offset;
        while idx < total {
            let mut cfg = Cfg::base(false, 9);
            cfg.n_vamms = 3;
            let mut w = deploy_or_drop(cfg);
            let extra = w.instantiate_vamm(9);
            let mut cands: Vec<String> = w.vamms.iter().map(|a| a.to_string()).collect();
            cands.push(extra.to_string());
            // start from the empty registry: the three deployed vAMMs are removed, in an order
            // that depends on the history index (also exercises removal from a permuted list)
            let mut expected: std::collections::BTreeSet<String> = cands.iter().take(3).cloned().collect();
            let orders = [[0usize, 1, 2], [0, 2, 1], [1, 0, 2], [1, 2, 0], [2, 0, 1], [2, 1, 0]];
            let mut hist = String::new();
            for i in orders[idx % 6] {
                let c = cands[i].clone();
                let t = w.ins_exec(OWNER, &InsExec::RemoveVamm { vamm: c.clone() });
                hist += &format!("-{}{} ", i, if t.ok { "" } else { "!" });
                prove_d("C14/removing-a-registered-vamm-succeeds", Cond::from_bool(t.ok), format!("{} err={}", hist, crate::sx::norm(&t.err)));
                if t.ok {
                    expected.remove(&c);
                }
                registry_ok_e(&w, &cands, &hist, Some(&expected));
            }
            hist += "| ";
            let mut k = idx;
            for _ in 0..len {
                let op = k % 8;
                k /= 8;
                let v = cands[op % 4].clone();
                let t = if op < 4 { w.ins_exec(OWNER, &InsExec::AddVamm { vamm: v.clone() }) } else { w.ins_exec(OWNER, &InsExec::RemoveVamm { vamm: v.clone() }) };
                hist += &format!("{}{}{} ", if op < 4 { "+" } else { "-" }, op % 4, if t.ok { "" } else { "!" });
                if t.ok {
                    if op < 4 {
                        expected.insert(v);
                    } else {
                        expected.remove(&v);
                    }
                }
                registry_ok_e(&w, &cands, &hist, Some(&expected));
            }
            idx += stride;
        }
    }
}

/// emergency shutdown with every subset of the three registered vAMMs already closed
fn shutdown(subset: u8) -> impl Fn() {
    move || {
        let mut cfg = Cfg::base(false, 9);
        cfg.n_vamms = 3;
        let mut w = deploy_or_drop(cfg);
        for i in 0..3 {
            if subset & (1 << i) != 0 {
                assert!(w.vamm_exec(OWNER, i, &VammExec::SetOpen { open: false }).ok);
            }
        }
        let t = w.ins_exec(OWNER, &InsExec::ShutdownVamms {});
        let open_after: Vec<usize> = (0..3).filter(|i| w.vamm_state(*i).open).collect();
        prove_d(
            "C14/after-shutdown-every-registered-vamm-is-closed",
            Cond::from_bool(open_after.is_empty()),
            format!("already-closed-subset={:03b} shutdown-ok={} still-open={:?} err={}", subset, t.ok, open_after, crate::sx::norm(&t.err)),
        );
    }
}

pub fn scenarios(seed: u64) -> Vec<Scenario> {
    let mut v = vec![];
    let d = "staged state (alice 10x under water, bob opposite, funding due); flags paused/closed/unregistered enumerated; operation amount symbolic";
    let names = ["open", "close", "deposit", "withdraw", "liquidate", "pay_funding"];
    for opk in 0..6u8 {
        for bits in 1..8u8 {
            let (p, c, u) = (bits & 1 != 0, bits & 2 != 0, bits & 4 != 0);
            v.push(sc("C14", Tier::Quick, &format!("c14.flags.{}.p{}c{}u{}", names[opk as usize], p as u8, c as u8, u as u8), d, 200, 60, flags(opk, p, c, u, false)));
        }
        v.push(sc("C14", Tier::Quick, &format!("c14.flags.{}.paused.native", names[opk as usize]), d, 200, 60, flags(opk, true, false, false, true)));
        if matches!(opk, 0 | 3 | 4 | 5) {
            v.push(sc("C14", Tier::Quick, &format!("c14.flags.{}.unregistered.foreign-fund", names[opk as usize]), "as c14.flags ... u1; in addition the vAMM's own insurance_fund setting names a second fund instance that lists the vAMM (the engine's fund does not)", 200, 60, foreign_fund(flags(opk, false, false, true, false))));
        }
        for bits in [1u8, 2, 4] {
            let (p, c, u) = (bits & 1 != 0, bits & 2 != 0, bits & 4 != 0);
            v.push(sc("C14", Tier::Quick, &format!("c14.flags.{}.p{}c{}u{}.band", names[opk as usize], p as u8, c as u8, u as u8), "as c14.flags with a tight price band and 25% partial close / liquidation fraction configured (partial arms)", 200, 60, flags_b(opk, p, c, u, false, true)));
        }
    }
    let dr = "all AddVamm/RemoveVamm histories over 4 vAMM addresses (3 initially known + 1) incl. duplicates; concrete enumeration";
    v.push(sc("C14", Tier::Quick, "c14.registry.len3", dr, 5, 120, registry(3, 1, 0)));
    // length 4 and 5: a seed-dependent residue class in quick, everything in thorough
    v.push(sc("C14", Tier::Quick, "c14.registry.len5.sample", dr, 5, 120, registry(5, 97, (seed as usize) % 97)));
    for part in 0..8usize {
        v.push(sc("C14", Tier::Thorough, &format!("c14.registry.len4.part{}", part), dr, 5, 600, registry(4, 8, part)));
    }
    for part in 0..16usize {
        v.push(sc("C14", Tier::Thorough, &format!("c14.registry.len5.part{}", part), dr, 5, 1800, registry(5, 16, part)));
    }
    for subset in 0..8u8 {
        v.push(sc("C14", Tier::Quick, &format!("c14.shutdown.closed{:03b}", subset), "three registered vAMMs, the given subset already closed, owner calls ShutdownVamms", 5, 60, shutdown(subset)));
    }
    v
}
