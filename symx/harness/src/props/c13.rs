//! C13 — outcomes do not depend on whether collateral is native or cw20.
//! Twin deployments (6 decimals, identical parameters) inside one scenario; the same symbolic
//! history is applied in lock-step, the native call attaching exactly what the cw20 twin pulled
//! from the caller in that step (sum of the TransferFrom{owner: caller} amounts it delivered).
use super::sc;
use crate::mon;
use crate::sx::{self, c, s, si, Cond, SInt};
use crate::tpl::*;
use crate::world::*;
use crate::{Scenario, Tier};
use cosmwasm_std::Uint128;
use margined_perp::margined_engine::Side;
use symrt::prove_d;

struct Twins {
    cw: Run,
    nat: Run,
}

thread_local! {
    /// toll and spread ratios of the twins symbolic in [0, 10%] (each may be zero on its own)
    static SYM_FEES: std::cell::Cell<bool> = std::cell::Cell::new(false);
    /// insurance fund balance at deployment in raw units (0 = the fixture's 5000 tokens)
    static INS_FUNDS: std::cell::Cell<u128> = std::cell::Cell::new(0);
}

fn twins(fees: bool, partial: bool) -> Twins {
    let symf = SYM_FEES.with(|c| c.get());
    let d0 = pow10(6);
    // (the same variables in both deployments)
    let sym = if fees && symf { Some((crate::sx::var("toll", 0, d0 / 10, d0 / 100), crate::sx::var("spread", 0, d0 / 10, d0 / 50))) } else { None };
    let mk = |native: bool| {
        let mut cfg = Cfg::base(native, 6);
        let d = cfg.d();
        cfg.init_ratio = Uint128::new(d / 10);
        if let Some((t, sp)) = sym {
            cfg.toll = t;
            cfg.spread = sp;
        } else if fees {
            cfg.toll = Uint128::new(d / 100);
            cfg.spread = Uint128::new(d / 50);
        }
        if partial {
            cfg.partial_ratio = Uint128::new(d / 4);
        }
        let thin = INS_FUNDS.with(|c| c.get());
        if thin > 0 {
            cfg.ins_funds = Uint128::new(thin);
        }
        cfg
    };
    Twins { cw: Run::new(mk(false), Mon::none()), nat: Run::new(mk(true), Mon::none()) }
}

/// what the cw20 deployment pulled from `who` during its last transaction
fn pulled(tx: &Tx, who: &str) -> SInt {
    let mut sum = SInt::zero();
    for m in tx.msgs_to("cw20") {
        if let Some(tf) = m.get("transfer_from") {
            if tf.get("owner").and_then(|o| o.as_str()) == Some(who) {
                if let Some(a) = tf.get("amount").and_then(|a| a.as_str()).and_then(sx::parse_num) {
                    sum = sum.add(a);
                }
            }
        }
    }
    sum
}

impl Twins {
    /// apply `op` to both; returns (cw20 ok, native ok)
    fn step(&mut self, op: Op) -> (bool, bool) {
        let a = self.cw.step(op.clone());
        // the native call attaches exactly what the cw20 twin pulled from the caller
        let who = op.sender();
        let pull = pulled(&a.tx, who);
        let funds = if a.tx.ok {
            match pull.konst().and_then(|b| b.to_u128()) {
                Some(0) => None,
                Some(v) => Some(Uint128::new(v)),
                None => Some(sx::u(pull.0)),
            }
        } else {
            // the cw20 call failed: attach what an opening trade of that size would need
            match &op {
                Op::Open { margin, lev, .. } => Some(native_open_funds(&self.nat.w, *margin, *lev)),
                Op::Deposit { amount, .. } => Some(*amount),
                _ => None,
            }
        };
        let nop = match op.clone() {
            Op::Open { who, side, margin, lev, limit, .. } => Op::Open { who, side, margin, lev, limit, funds },
            Op::Deposit { who, amount, .. } => Op::Deposit { who, amount, funds },
            o => o,
        };
        let b = self.nat.step(nop);
        // a ClosePosition that left a position behind closed only the configured fraction
        let partial = matches!(op, Op::Close { .. }) && a.tx.ok && a.post.pos[&(0, who)].as_ref().map(|p| !p.size.value.is_zero()).unwrap_or(false);
        let what = format!("{}{} cw20:{} native:{}", op.name(), if partial { "-partial" } else { "" }, if a.tx.ok { "ok" } else { "failed" }, if b.tx.ok { "ok" } else { "failed" });
        prove_d("C13/same-success-or-failure", Cond::from_bool(a.tx.ok == b.tx.ok), format!("{} cw20-err={} native-err={}", what, sx::norm(&a.tx.err), sx::norm(&b.tx.err)));
        if !(a.tx.ok && b.tx.ok) {
            return (a.tx.ok, b.tx.ok);
        }
        // positions
        for t in HOLDERS.iter() {
            match (&a.post.pos[&(0, *t)], &b.post.pos[&(0, *t)]) {
                (None, None) => {}
                (Some(x), Some(y)) => {
                    let same = x.direction == y.direction && x.block_number == y.block_number;
                    let cnd = Cond::all(vec![si(&x.size).eq(si(&y.size)), s(x.margin).eq(s(y.margin)), s(x.notional).eq(s(y.notional)), si(&x.last_updated_premium_fraction).eq(si(&y.last_updated_premium_fraction))]);
                    prove_d("C13/same-positions", Cond::from_bool(same).and(cnd), format!("{} trader={}", what, t));
                }
                _ => mon::fail("C13/same-positions", format!("{} trader={}: exists in one deployment only", what, t)),
            }
        }
        // vAMM and engine state
        mon::vamm_state_eq("C13/same-vamm-state", &a.post.vamm[0], &b.post.vamm[0], &what);
        prove_d(
            "C13/same-engine-state",
            s(a.post.eng.open_interest_notional).eq(s(b.post.eng.open_interest_notional)).and(s(a.post.eng.bad_debt).eq(s(b.post.eng.bad_debt))),
            what.clone(),
        );
        // the same amounts move between the same parties
        for acct in [who, "engine", "insurance_fund", "fee_pool", ALICE, BOB, LIQ] {
            let da = s(a.post.bal[acct]).sub(s(a.pre.bal[acct]));
            let db = s(b.post.bal[acct]).sub(s(b.pre.bal[acct]));
            prove_d("C13/same-balance-deltas", da.eq(db), format!("{} account={}", what, if acct == who { "caller" } else { acct }));
        }
        let _ = c(0);
        (true, true)
    }
    fn next_block(&mut self, dt: u64) {
        self.cw.w.next_block(dt);
        self.nat.w.next_block(dt);
    }
}

/// histories: kind 0 open; 1 open+increase; 2 open+opposite; 3 open, counter-trade, close;
/// 4 open, deposit, withdraw; 5 open, counter-trade, liquidate; 6 as 3 but the trader's wallet is
/// emptied (a transfer to a third party, in both deployments) before the close; 7-10 a funding
/// settlement with a symbolic oracle price, then close / opposite order / withdraw, increase and
/// close / liquidation; 11 partial closes under a tight price band
/// the same history on deployments whose insurance funds hold only `raw` units (a shortfall or a
/// funding payment can exceed what the fund has while it is not empty)
fn lockstep_thin_ins(kind: u8, side: Side, fees: bool, seed: u64, raw: u128) -> impl Fn() {
    let f = lockstep(kind, side, fees, seed);
    move || {
        INS_FUNDS.with(|c| c.set(raw));
        f();
        INS_FUNDS.with(|c| c.set(0));
    }
}

/// the same history with the native deployment on the other accepted denom (`ujunox`)
fn lockstep_ujunox(kind: u8, side: Side, fees: bool, seed: u64) -> impl Fn() {
    let f = lockstep(kind, side, fees, seed);
    move || {
        crate::world::set_denom("ujunox");
        f();
        crate::world::set_denom(crate::world::DENOM);
    }
}

fn lockstep_symfees(kind: u8, side: Side, seed: u64) -> impl Fn() {
    let f = lockstep(kind, side, true, seed);
    move || {
        SYM_FEES.with(|c| c.set(true));
        f();
        SYM_FEES.with(|c| c.set(false));
    }
}

fn lockstep(kind: u8, side: Side, fees: bool, seed: u64) -> impl Fn() {
    move || {
        let mut t = twins(fees, (kind == 5 && seed % 2 == 1) || kind == 11);
        let d = t.cw.w.d;
        // (kind 12: a non-integer leverage, so that margin x leverage / leverage rounds)
        let lev = Uint128::new(if kind == 5 { 10 * d } else if kind == 12 { [2 * d + d / 2, 3 * d + d / 2, 7 * d / 3][(seed % 3) as usize] } else { (2 + (seed % 3) as u128) * d });
        symrt::set_full(kind == 0 || kind == 12);
        // (kind 12 is seeded with non-round amounts: margin x leverage is not a multiple of 10^decimals)
        let m1 = if kind == 12 { crate::sx::var("m1", 0, (1u128 << 40) * d, 20 * d + 1) } else if kind == 0 { amount("m1", d, false, 20) } else { Uint128::new((if kind == 5 { 25 } else { 20 + (seed % 9) as u128 }) * d) };
        let (ok, _) = t.step(Op::Open { who: ALICE, side: side.clone(), margin: m1, lev, limit: Uint128::zero(), funds: None });
        if !ok || kind == 0 {
            return;
        }
        if kind == 13 {
            // withdraw a symbolic amount, then close: the payout crosses "exactly the fees"
            t.next_block(15);
            symrt::set_full(true);
            let b = amount("wd", d, false, 5);
            t.step(Op::Withdraw { who: ALICE, amount: b });
            t.step(Op::Close { who: ALICE, limit: Uint128::zero() });
            return;
        }
        if kind == 12 {
            // an increase and a reduction at the same fractional leverage, then the close
            t.next_block(15);
            let m2 = crate::sx::var("m2", 0, (1u128 << 40) * d, 7 * d + 3);
            t.step(Op::Open { who: ALICE, side: side.clone(), margin: m2, lev, limit: Uint128::zero(), funds: None });
            let m3 = crate::sx::var("m3", 0, (1u128 << 40) * d, 3 * d + 1);
            t.step(Op::Open { who: ALICE, side: opp(&side), margin: m3, lev, limit: Uint128::zero(), funds: None });
            t.step(Op::Close { who: ALICE, limit: Uint128::zero() });
            return;
        }
        t.next_block(15);
        match kind {
            1 | 2 => {
                symrt::set_full(true);
                let m2 = amount("m2", d, false, 10);
                let s2 = if kind == 1 { side.clone() } else { opp(&side) };
                t.step(Op::Open { who: ALICE, side: s2, margin: m2, lev, limit: Uint128::zero(), funds: None });
            }
            3 | 5 | 6 => {
                let m2 = amount("m2", d, false, if kind == 5 { 5 + 40 * (seed % 2) as u128 } else { 15 });
                let (ok, _) = t.step(Op::Open { who: BOB, side: opp(&side), margin: m2, lev, limit: Uint128::zero(), funds: None });
                if !ok {
                    return;
                }
                t.next_block(1000);
                symrt::set_full(true);
                if kind == 6 {
                    // leave `keep` in alice's wallet in both deployments (symbolic, down to 0)
                    let keep = amount("keep", d, false, 0);
                    for w in [&mut t.cw.w, &mut t.nat.w] {
                        let bal = w.balance(&addr(ALICE));
                        if let Ok(Some(out)) = symrt::catch(|| bal.checked_sub(keep).ok()) {
                            if !out.is_zero() {
                                w.transfer(ALICE, &addr("sink"), out);
                            }
                        }
                    }
                }
                if kind == 3 || kind == 6 {
                    t.step(Op::Close { who: ALICE, limit: Uint128::zero() });
                } else {
                    t.step(Op::Liquidate { by: LIQ, trader: ALICE, limit: Uint128::zero() });
                }
            }
            11 => {
                // a tight price band: ClosePosition closes the configured fraction, twice, then
                // the band is lifted and the rest is closed
                let m2 = Uint128::new((12 + (seed % 7) as u128) * d);
                let (ok, _) = t.step(Op::Open { who: BOB, side: opp(&side), margin: m2, lev, limit: Uint128::zero(), funds: None });
                if !ok {
                    return;
                }
                t.next_block(15);
                for w in [&mut t.cw.w, &mut t.nat.w] {
                    assert!(w.update_vamm(0, None, None, None, None, Some(Uint128::new(d / 1000)), None).ok);
                }
                t.next_block(15);
                symrt::set_full(true);
                t.step(Op::Close { who: ALICE, limit: Uint128::zero() });
                t.next_block(15);
                t.step(Op::Close { who: ALICE, limit: Uint128::zero() });
                t.next_block(15);
                for w in [&mut t.cw.w, &mut t.nat.w] {
                    assert!(w.update_vamm(0, None, None, None, None, Some(Uint128::zero()), None).ok);
                }
                t.step(Op::Close { who: ALICE, limit: Uint128::zero() });
            }
            7 | 8 | 9 | 10 => {
                // a counter-party, a day passes, the oracle moves (symbolic), funding is settled,
                // then alice closes / reverses / withdraws and increases / is liquidated
                let m2 = Uint128::new((10 + (seed % 5) as u128) * d);
                let (ok, _) = t.step(Op::Open { who: BOB, side: opp(&side), margin: m2, lev, limit: Uint128::zero(), funds: None });
                if !ok {
                    return;
                }
                t.next_block(86_400);
                let price = crate::sx::var("oracle", 1, 1_000 * d, (if seed % 2 == 0 { 9 } else { 11 }) * d);
                for w in [&mut t.cw.w, &mut t.nat.w] {
                    let now = w.now();
                    w.set_oracle(price, now);
                }
                symrt::set_full(true);
                let (ok, _) = t.step(Op::PayFunding { by: EVE });
                if !ok {
                    return;
                }
                t.next_block(15);
                match kind {
                    7 => {
                        t.step(Op::Close { who: ALICE, limit: Uint128::zero() });
                    }
                    8 => {
                        let m3 = amount("m3", d, false, 50);
                        t.step(Op::Open { who: ALICE, side: opp(&side), margin: m3, lev, limit: Uint128::zero(), funds: None });
                    }
                    9 => {
                        let b = amount("wd", d, false, 1);
                        t.step(Op::Withdraw { who: ALICE, amount: b });
                        let m3 = amount("m3", d, false, 5);
                        t.step(Op::Open { who: ALICE, side: side.clone(), margin: m3, lev, limit: Uint128::zero(), funds: None });
                        t.step(Op::Close { who: ALICE, limit: Uint128::zero() });
                    }
                    _ => {
                        t.step(Op::Liquidate { by: LIQ, trader: ALICE, limit: Uint128::zero() });
                        t.step(Op::Close { who: BOB, limit: Uint128::zero() });
                    }
                }
            }
            _ => {
                symrt::set_full(true);
                let a = amount("dep", d, false, 10);
                t.step(Op::Deposit { who: ALICE, amount: a, funds: None });
                let b = amount("wd", d, false, 5);
                t.step(Op::Withdraw { who: ALICE, amount: b });
            }
        }
    }
}

struct Rng(u64);
impl Rng {
    fn next(&mut self) -> u64 {
        self.0 = self.0.wrapping_add(0x9E3779B97F4A7C15);
        let mut z = self.0;
        z = (z ^ (z >> 30)).wrapping_mul(0xBF58476D1CE4E5B9);
        z = (z ^ (z >> 27)).wrapping_mul(0x94D049BB133111EB);
        z ^ (z >> 31)
    }
    fn pick<T: Copy>(&mut self, xs: &[T]) -> T {
        xs[(self.next() % xs.len() as u64) as usize]
    }
    fn chance(&mut self, pct: u64) -> bool {
        self.next() % 100 < pct
    }
}

/// a pseudo-random history (4-8 operations over three traders and two liquidators: opens of both
/// sides, closes, deposits, withdrawals, liquidation attempts, funding settlements with oracle
/// moves, block gaps; per-history fees, partial ratio, liquidation fee, price band) applied to the
/// twins in lock-step; amounts concrete except the last operation's
fn lockstep_gen(idx: u64, seed: u64) -> impl Fn() {
    move || {
        let mut g = Rng(seed.wrapping_mul(2_000_003).wrapping_add(idx).wrapping_mul(0x2545F4914F6CDD1D) ^ 0x7717);
        let fees = g.chance(50);
        let partial = g.pick(&[0u128, 0, 4, 2, 1]);
        let liq_fee_pct = g.pick(&[1u128, 5, 5]);
        let band = g.chance(20);
        let mk = |native: bool| {
            let mut cfg = Cfg::base(native, 6);
            let d = cfg.d();
            cfg.init_ratio = Uint128::new(d / 10);
            if fees {
                cfg.toll = Uint128::new(d / 100);
                cfg.spread = Uint128::new(d / 50);
            }
            if partial > 0 {
                cfg.partial_ratio = Uint128::new(d / partial);
            }
            cfg.liq_fee = Uint128::new(d * liq_fee_pct / 100);
            cfg
        };
        let mut t = Twins { cw: Run::new(mk(false), Mon::none()), nat: Run::new(mk(true), Mon::none()) };
        let d = t.cw.w.d;
        symrt::set_full(false);
        if band {
            let f = Uint128::new(g.pick(&[d / 50, d / 10]));
            for w in [&mut t.cw.w, &mut t.nat.w] {
                assert!(w.update_vamm(0, None, None, None, None, Some(f), None).ok);
            }
        }
        let traders = [ALICE, BOB, CAROL];
        let n = 4 + (g.next() % 5) as usize;
        let mut desc = String::new();
        for i in 0..n {
            let last = i + 1 == n;
            if last {
                symrt::set_full(true);
            }
            let who = g.pick(&traders);
            let k = g.next() % 100;
            let op = if k < 40 || i == 0 {
                let side = if g.chance(50) { Side::Buy } else { Side::Sell };
                let units = g.pick(&[1u128, 3, 5, 10, 20, 25, 40, 60]);
                let lev = Uint128::new(g.pick(&[1u128, 2, 2, 5, 10]) * d);
                let margin = if last { amount("gm", d, false, units) } else { Uint128::new(units * d) };
                Op::Open { who, side, margin, lev, limit: Uint128::zero(), funds: None }
            } else if k < 55 {
                Op::Close { who, limit: Uint128::zero() }
            } else if k < 62 {
                let a = if last { amount("gd", d, false, 5) } else { Uint128::new(g.pick(&[1u128, 5, 30]) * d) };
                Op::Deposit { who, amount: a, funds: None }
            } else if k < 72 {
                let a = if last { amount("gw", d, false, 2) } else { Uint128::new(g.pick(&[1u128, 2, 10]) * d) };
                Op::Withdraw { who, amount: a }
            } else if k < 86 {
                Op::Liquidate { by: g.pick(&[LIQ, EVE]), trader: who, limit: Uint128::zero() }
            } else {
                t.next_block(86_400);
                let price = Uint128::new(g.pick(&[3u128, 8, 10, 12, 30]) * d);
                for w in [&mut t.cw.w, &mut t.nat.w] {
                    let now = w.now();
                    w.set_oracle(price, now);
                }
                Op::PayFunding { by: EVE }
            };
            desc += &format!("{}{} ", op.name(), if last { "*" } else { "" });
            t.step(op);
            if g.chance(75) {
                t.next_block(g.pick(&[15u64, 15, 900, 1000]));
            }
        }
        symrt::log_event(format!("history: {}fees={} partial=1/{} band={}", desc, fees, partial, band));
    }
}

pub fn scenarios(seed: u64) -> Vec<Scenario> {
    let mut v = vec![];
    let d = "twin deployments (native uwasm / cw20, 6 decimals, same parameters), same symbolic history in lock-step; per step: same success, Position records, vAMM state, engine state and per-account balance deltas proved equal";
    let kinds = [(0u8, "open"), (1, "increase"), (2, "opposite"), (3, "close"), (4, "depwd"), (5, "liquidate"), (6, "close.thin-wallet"), (7, "fund.close"), (8, "fund.opposite"), (9, "fund.withdraw-increase-close"), (10, "fund.liquidate"), (11, "partial-close"), (12, "fractional-leverage"), (13, "withdraw-close")];
    for (k, kn) in kinds {
        for (side, sn) in [(Side::Buy, "long"), (Side::Sell, "short")] {
            for fees in [false, true] {
                let tier = if side == Side::Sell && !fees { Tier::Thorough } else { Tier::Quick };
                v.push(sc("C13", tier, &format!("c13.{}.{}{}", kn, sn, if fees { ".fees" } else { "" }), d, 500, 150, lockstep(k, side.clone(), fees, seed)));
            }
        }
    }
    for (k, kn) in [(0u8, "open"), (2, "opposite"), (3, "close"), (7, "fund.close")] {
        for (side, sn) in [(Side::Buy, "long"), (Side::Sell, "short")] {
            let tier = if side == Side::Sell && k != 3 { Tier::Thorough } else { Tier::Quick };
            v.push(sc("C13", tier, &format!("c13.{}.{}.symfees", kn, sn), "as above with toll and spread ratios symbolic in [0, 10%] (either may be zero on its own)", 500, 150, lockstep_symfees(k, side.clone(), seed)));
        }
    }
    for (k, kn) in [(0u8, "open"), (2, "opposite"), (4, "depwd"), (7, "fund.close")] {
        v.push(sc("C13", Tier::Quick, &format!("c13.{}.long.fees.ujunox", kn), "as the scenario of the same name, the native deployment using the other accepted denom (ujunox)", 500, 150, lockstep_ujunox(k, Side::Buy, true, seed)));
    }
    let dt = "as the scenario of the same name on deployments whose insurance funds hold one token / three tokens only: what the engine asks the fund for can exceed what it has while it is not empty";
    for (k, kn) in [(7u8, "fund.close"), (10, "fund.liquidate"), (5, "liquidate"), (3, "close")] {
        for (side, sn) in [(Side::Buy, "long"), (Side::Sell, "short")] {
            for (raw, rn) in [(1_000_000u128, "ins1"), (3_000_000, "ins3")] {
                let tier = if raw == 1_000_000 || k == 7 { Tier::Quick } else { Tier::Thorough };
                v.push(sc("C13", tier, &format!("c13.{}.{}.{}", kn, sn, rn), dt, 500, 150, lockstep_thin_ins(k, side.clone(), false, seed, raw)));
            }
        }
    }
    let dg = "twin deployments, pseudo-random lock-step history of 4-8 operations (opens of both sides and several leverages, closes incl. partial ones under a band, deposits, withdrawals, liquidation attempts, funding settlements with oracle moves) with per-history fees / partial ratio / liquidation fee / price band; concrete except the last operation";
    for idx in 0..120u64 {
        let tier = if idx < 24 { Tier::Quick } else { Tier::Thorough };
        v.push(sc("C13", tier, &format!("c13.gen.{:03}", idx), dg, 200, 60, lockstep_gen(idx, seed)));
    }
    v
}
