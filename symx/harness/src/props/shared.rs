//! The engine-history scenario family shared by the cross-cutting properties (C02, C03, C08, C10
//! and the engine-driven part of C01): same templates, one monitor enabled per property.
use super::sc;
use crate::hist::*;
use crate::{Scenario, Tier};
use margined_perp::margined_engine::Side::{Buy, Sell};

pub fn shared(prop: &'static str, seed: u64) -> Vec<Scenario> {
    let lc = prop.to_lowercase();
    let mut v: Vec<Scenario> = vec![];
    let mut add = |tier: Tier, name: String, desc: &str, paths: u64, secs: u64, f: Box<dyn Fn()>| {
        v.push(sc(prop, tier, &format!("{}.{}", lc, name), desc, paths, secs, f));
    };
    let d_open = "fresh OpenPosition: margin, leverage, limit symbolic (and toll/spread in [0,1] where '.fees'); all paths";
    let d_open2 = "OpenPosition (seeded concolic prefix, amounts symbolic) then a second OpenPosition explored exhaustively: increase / reduce / close-out / reverse arms";
    let d_close = "alice opens, bob moves the price (amount symbolic), alice closes with a symbolic limit; close explored exhaustively";
    let d_liq = "alice 10x, bob trades against her (3 seeded regimes), third party liquidates; maintenance ratio, liquidation fee (and partial ratio where '.partial') symbolic; liquidation explored exhaustively";
    let d_depwd = "open (seeded), then DepositMargin and WithdrawMargin with symbolic amounts, both explored exhaustively";
    let d_fund = "two opposite positions, one day passes, oracle price symbolic, PayFunding then a follow-up operation, both explored exhaustively";
    for side in [Buy, Sell] {
        let p = P::new(prop, side.clone(), seed);
        add(Tier::Quick, format!("open.{}", p.tag()), d_open, 400, 120, Box::new(t_open(p.clone())));
        let pc = p.clone().concrete_prefix();
        add(Tier::Quick, format!("inc.{}", p.tag()), d_open2, 400, 120, Box::new(t_open2(pc.clone(), true)));
        add(Tier::Quick, format!("opp.{}", p.tag()), d_open2, 600, 150, Box::new(t_open2(pc.clone(), false)));
        add(Tier::Quick, format!("opp.{}", p.clone().lev().tag()), d_open2, 600, 150, Box::new(t_open2(pc.clone().lev(), false)));
        add(Tier::Thorough, format!("inc.sym.{}", p.tag()), d_open2, 600, 600, Box::new(t_open2(p.clone(), true)));
        add(Tier::Thorough, format!("opp.sym.{}", p.tag()), d_open2, 600, 600, Box::new(t_open2(p.clone(), false)));
        add(Tier::Quick, format!("close.against.{}", p.tag()), d_close, 300, 120, Box::new(t_close(pc.clone(), false)));
        for (rn, ru) in [("shallow", 5u128), ("boundary", 7), ("deep", 45)] {
            add(Tier::Quick, format!("liq.{}.{}", rn, p.tag()), d_liq, 400, 150, Box::new(t_liq(pc.clone(), ru)));
            add(Tier::Quick, format!("liq.{}.{}", rn, pc.clone().partial().tag()), d_liq, 600, 150, Box::new(t_liq(pc.clone().partial(), ru)));
        }
        add(Tier::Quick, format!("liq.profitable-but-funding-debt.{}", p.tag()), d_liq, 600, 150, Box::new(t_liq_profitable(pc.clone())));
        add(Tier::Quick, format!("opp-after-move.against.{}", p.tag()), "alice opens, 15 min pass, bob moves the price (spot != TWAP), alice's opposite order of symbolic size, then both close", 600, 150, Box::new(t_opp_after_move(pc.clone(), false)));
        add(Tier::Quick, format!("opp-after-move.with.{}", p.tag()), "as above, bob trades the same way as alice", 600, 150, Box::new(t_opp_after_move(pc.clone(), true)));
        add(Tier::Quick, format!("liq2.{}", p.tag()), "alice partially liquidated by one liquidator, then by a second and a third one in later blocks", 600, 150, Box::new(t_liq2(pc.clone(), false)));
        add(Tier::Quick, format!("liq2.sameblock.{}", p.tag()), "two liquidations by different liquidators in one block", 600, 150, Box::new(t_liq2(pc.clone(), true)));
        add(Tier::Quick, format!("liq-two-same-block.{}", p.tag()), "the liquidator opens its own position and liquidates two traders in that block", 600, 150, Box::new(t_liq_two_same_block(pc.clone())));
        add(Tier::Quick, format!("fund.pclose.close.{}", p.tag()), "positions, a funding settlement, then alice closes under a tight price band (a partial close), the band is lifted and she closes the rest", 400, 150, Box::new(t_fund_pclose(pc.clone())));
        add(Tier::Quick, format!("dust.{}", p.tag()), "a position of a few raw units at 1x (symbolic, down to 0), the price moves far against it, close", 400, 150, Box::new(t_dust(pc.clone())));
        add(Tier::Quick, format!("pclose.{}", p.clone().fees().tag()), "alice opens, bob moves the price, a tight band: a partial close (explored exhaustively, fees), then the rest", 400, 150, Box::new(t_pclose(pc.clone().fees(), false)));
        add(Tier::Quick, format!("pclose.with.{}", p.clone().lim().tag()), "as above, bob trades the same way, symbolic limit", 400, 150, Box::new(t_pclose(pc.clone().lim(), true)));
        add(Tier::Quick, format!("dep-close.{}", p.tag()), "alice 10x, bob trades against her beyond her margin, alice deposits a symbolic amount (equity crosses zero exactly at one value) and closes", 400, 150, Box::new(t_dep_close(pc.clone(), 45)));
        add(Tier::Quick, format!("prepaid-closes.{}", p.tag()), "three traders on one side close one after the other, each paid partly by the insurance fund (prepaid bad debt accumulates)", 400, 150, Box::new(t_prepaid_closes(pc.clone())));
        let d_int = "as the template of the same name; right before the transaction(s) under test the owner closes and re-opens the market ('.reopen') or sends an out-of-range partial-liquidation ratio ('.bad-admin'); after a liquidation the rest of the position and the counter-party's are closed";
        add(Tier::Quick, format!("opp.{}", p.clone().reopen().tag()), d_int, 600, 150, Box::new(t_open2(pc.clone().reopen(), false)));
        add(Tier::Quick, format!("close.against.{}", p.clone().reopen().tag()), d_int, 300, 120, Box::new(t_close(pc.clone().reopen(), false)));
        add(Tier::Quick, format!("liq.shallow.{}", pc.clone().partial().reopen().tag()), d_int, 600, 150, Box::new(t_liq(pc.clone().partial().reopen(), 5)));
        add(Tier::Quick, format!("liq.shallow.{}", pc.clone().bad_admin().tag()), d_int, 600, 150, Box::new(t_liq(pc.clone().bad_admin(), 5)));
        add(Tier::Quick, format!("opp.{}", p.clone().engine_switch().tag()), "as opp; right before the second order the owner re-points the vAMM's margin_engine setting at another account and back", 600, 150, Box::new(t_open2(pc.clone().engine_switch(), false)));
        add(Tier::Quick, format!("close.against.{}", p.clone().engine_switch().tag()), "as close.against with the vAMM's margin_engine setting re-pointed and restored before the close", 300, 120, Box::new(t_close(pc.clone().engine_switch(), false)));
        add(Tier::Quick, format!("pclose.{}", p.clone().cheap().tag()), "as pclose on a pool priced at 0.1 with amounts that are not whole units (the quote-to-base round trip of a partial close loses raw units)", 400, 150, Box::new(t_pclose(pc.clone().cheap(), false)));
        add(Tier::Quick, format!("pclose.with.{}", p.clone().cheap().tag()), "as above, the counter-party trades the same way", 400, 150, Box::new(t_pclose(pc.clone().cheap(), true)));
        add(Tier::Quick, format!("opp.{}", p.clone().fees().pool_switch().tag()), "as opp..fees; right before the second order the owner re-points the engine at a freshly deployed fee pool", 600, 150, Box::new(t_open2(pc.clone().fees().pool_switch(), false)));
        add(Tier::Quick, format!("close.against.{}", p.clone().fees().pool_switch().tag()), "as close.against..fees with the fee pool replaced before the close", 300, 120, Box::new(t_close(pc.clone().fees().pool_switch(), false)));
        add(Tier::Quick, format!("liq.shallow.{}", pc.clone().partial().bad_admin().tag()), d_int, 600, 150, Box::new(t_liq(pc.clone().partial().bad_admin(), 5)));
        add(Tier::Quick, format!("two-vamms.{}", p.tag()), "two registered vAMMs: trades, a funding settlement and a liquidation on one, withdraw/close on the other", 600, 150, Box::new(t_two_vamms(pc.clone())));
        // thorough
        add(Tier::Thorough, format!("close.with.{}", p.tag()), d_close, 300, 300, Box::new(t_close(pc.clone(), true)));
        add(Tier::Thorough, format!("close.sym.{}", p.tag()), d_close, 600, 600, Box::new(t_close(p.clone(), false)));
        add(Tier::Thorough, format!("open.{}", p.clone().wide().tag()), d_open, 1500, 600, Box::new(t_open(p.clone().wide())));
        add(Tier::Thorough, format!("opp.{}", p.clone().fees().tag()), d_open2, 1500, 600, Box::new(t_open2(p.clone().fees(), false)));
        add(Tier::Thorough, format!("opp.fullprefix.{}", p.tag()), d_open2, 3000, 900, Box::new(t_open2(p.clone().full_prefix(), false)));
        add(Tier::Thorough, format!("liq.sym.{}", p.clone().partial().tag()), d_liq, 1500, 900, Box::new(t_liq(p.clone().partial(), 6)));
        add(Tier::Thorough, format!("fund.withdraw.{}", p.tag()), d_fund, 600, 600, Box::new(t_fund(pc.clone(), 1)));
        add(Tier::Thorough, format!("fund.increase.{}", p.tag()), d_fund, 600, 600, Box::new(t_fund(pc.clone(), 2)));
        add(Tier::Thorough, format!("open.{}", p.clone().native().fees().tag()), d_open, 600, 300, Box::new(t_open(p.clone().native().fees())));
        add(Tier::Thorough, format!("liq.{}", pc.clone().native().partial().tag()), d_liq, 600, 300, Box::new(t_liq(pc.clone().native().partial(), 5)));
    }
    if prop == "C03" {
        let d_out = "fees collected, the fee pool lists the collateral; accounts without any role send fee-pool SendToken (recipient: the owner / a third party / themselves) and insurance-fund Withdraw with a symbolic amount: collateral may move only between the sender, the engine, the insurance fund and the fee pool";
        for native in [false, true] {
            let po = P::new(prop, Buy, seed).concrete_prefix();
            let po = if native { po.native() } else { po };
            add(Tier::Quick, format!("outsiders.{}", po.tag()), d_out, 200, 120, Box::new(t_outsiders(po.clone())));
        }
    }
    let p = P::new(prop, Buy, seed);
    let pc = p.clone().concrete_prefix();
    add(Tier::Quick, format!("open.{}", p.clone().fees().tag()), d_open, 600, 120, Box::new(t_open(p.clone().fees())));
    add(Tier::Quick, format!("open.{}", p.clone().native().tag()), d_open, 400, 120, Box::new(t_open(p.clone().native())));
    add(Tier::Quick, format!("inc.{}", p.clone().native().fees().tag()), d_open2, 600, 150, Box::new(t_open2(pc.clone().native().fees(), true)));
    add(Tier::Quick, format!("open.{}", p.clone().lev().lim().tag()), d_open, 600, 150, Box::new(t_open(p.clone().lev().lim())));
    add(Tier::Quick, format!("close.against.{}", pc.clone().native().tag()), d_close, 300, 120, Box::new(t_close(pc.clone().native(), false)));
    add(Tier::Quick, format!("close.against.{}", pc.clone().fees().tag()), d_close, 400, 150, Box::new(t_close(pc.clone().fees(), false)));
    add(Tier::Quick, format!("depwd.{}", p.tag()), d_depwd, 400, 120, Box::new(t_depwd(pc.clone())));
    add(Tier::Quick, format!("depwd.{}", p.clone().native().tag()), d_depwd, 400, 120, Box::new(t_depwd(pc.clone().native())));
    add(Tier::Quick, format!("fund.close.{}", p.tag()), d_fund, 400, 150, Box::new(t_fund(pc.clone(), 0)));
    add(Tier::Quick, format!("fund.close.{}", P::new(prop, Sell, seed).tag()), d_fund, 400, 150, Box::new(t_fund(P::new(prop, Sell, seed).concrete_prefix(), 0)));
    add(Tier::Quick, format!("close.against.{}", pc.clone().native().fees().tag()), d_close, 400, 150, Box::new(t_close(pc.clone().native().fees(), false)));
    add(Tier::Quick, format!("close.with.{}", P::new(prop, Sell, seed).concrete_prefix().native().fees().tag()), d_close, 400, 150, Box::new(t_close(P::new(prop, Sell, seed).concrete_prefix().native().fees(), true)));
    let d_out = "the vAMM's own insurance_fund config field points at an outsider account; fees symbolic";
    let po = pc.clone().fees().vamm_ins_outsider();
    add(Tier::Quick, format!("close.against.{}", po.tag()), d_out, 400, 150, Box::new(t_close(po.clone(), false)));
    add(Tier::Quick, format!("opp.{}", po.tag()), d_out, 600, 150, Box::new(t_open2(po.clone(), false)));
    add(Tier::Quick, format!("pclose.{}", po.clone().native().tag()), d_out, 400, 150, Box::new(t_pclose(po.clone().native(), false)));
    // native collateral with a symbolic amount of coins attached to the messages that need none
    let d_att = "native collateral; a symbolic amount of collateral coins is attached to ClosePosition / Liquidate / PayFunding / WithdrawMargin (messages that need none)";
    let pa = pc.clone().native().attached();
    add(Tier::Quick, format!("fund.close.{}", pa.tag()), d_att, 400, 150, Box::new(t_fund(pa.clone(), 0)));
    add(Tier::Quick, format!("fund.withdraw.{}", pa.tag()), d_att, 400, 150, Box::new(t_fund(pa.clone(), 1)));
    add(Tier::Quick, format!("liq.shallow.{}", pa.clone().partial().tag()), d_att, 400, 150, Box::new(t_liq(pa.clone().partial(), 5)));
    add(Tier::Quick, format!("depwd.{}", pa.clone().sym_funds().tag()), d_att, 400, 120, Box::new(t_depwd(pa.clone().sym_funds())));
    add(Tier::Thorough, format!("liq.deep.{}", pa.tag()), d_att, 400, 150, Box::new(t_liq(pa.clone(), 45)));
    add(Tier::Thorough, format!("fund.liq.{}", pa.tag()), d_att, 400, 300, Box::new(t_fund(pa.clone(), 4)));
    v
}

/// C12: the shared templates with toll and spread symbolic in [0, 1]
pub fn fees(seed: u64) -> Vec<Scenario> {
    let prop = "C12";
    let mut v: Vec<Scenario> = vec![];
    let mut add = |tier: Tier, name: String, desc: &str, paths: u64, secs: u64, f: Box<dyn Fn()>| {
        v.push(sc(prop, tier, &format!("c12.{}", name), desc, paths, secs, f));
    };
    let d = "toll and spread ratios symbolic in [0,1]; amounts of the transaction under test symbolic (down to values where fees round to zero); balance deltas of fee pool and insurance fund compared with floor(notional x ratio)";
    for side in [Buy, Sell] {
        let p = P::new(prop, side.clone(), seed).fees();
        let pc = p.clone().concrete_prefix();
        add(Tier::Quick, format!("open.{}", p.tag()), d, 600, 150, Box::new(t_open(p.clone())));
        add(Tier::Quick, format!("open.{}", p.clone().lev().tag()), d, 600, 150, Box::new(t_open(p.clone().lev())));
        add(Tier::Quick, format!("inc.{}", p.tag()), d, 600, 150, Box::new(t_open2(pc.clone(), true)));
        add(Tier::Quick, format!("opp.{}", p.tag()), d, 800, 150, Box::new(t_open2(pc.clone(), false)));
        add(Tier::Quick, format!("close.against.{}", p.tag()), d, 400, 150, Box::new(t_close(pc.clone(), false)));
        add(Tier::Quick, format!("close.with.{}", p.tag()), d, 400, 150, Box::new(t_close(pc.clone(), true)));
        add(Tier::Quick, format!("close.against.{}", p.clone().pool_switch().tag()), "as close.against; before the close the owner re-points the engine at a freshly deployed fee pool, which is the one the toll is owed to from then on", 400, 150, Box::new(t_close(pc.clone().pool_switch(), false)));
        add(Tier::Quick, format!("opp.{}", p.clone().pool_switch().tag()), "as opp with the fee pool replaced before the second order", 800, 150, Box::new(t_open2(pc.clone().pool_switch(), false)));
        add(Tier::Quick, format!("liq.shallow.{}", p.tag()), d, 400, 150, Box::new(t_liq(pc.clone(), 5)));
        add(Tier::Quick, format!("dep-close.{}", p.tag()), d, 400, 150, Box::new(t_dep_close(pc.clone(), 45)));
        add(Tier::Thorough, format!("opp.{}", p.clone().lev().tag()), d, 1500, 600, Box::new(t_open2(pc.clone().lev(), false)));
        add(Tier::Thorough, format!("opp.sym.{}", p.tag()), d, 1500, 600, Box::new(t_open2(p.clone(), false)));
        add(Tier::Thorough, format!("open.{}", p.clone().wide().lev().tag()), d, 2000, 600, Box::new(t_open(p.clone().wide().lev())));
        add(Tier::Thorough, format!("liq.deep.{}", p.clone().partial().tag()), d, 600, 300, Box::new(t_liq(pc.clone().partial(), 45)));
    }
    let p = P::new(prop, Buy, seed).fees();
    let pc = p.clone().concrete_prefix();
    add(Tier::Quick, format!("depwd.{}", p.tag()), d, 400, 120, Box::new(t_depwd(pc.clone())));
    add(Tier::Quick, format!("fund.close.{}", p.tag()), d, 600, 150, Box::new(t_fund(pc.clone(), 0)));
    add(Tier::Quick, format!("open.{}", p.clone().native().tag()), d, 600, 150, Box::new(t_open(p.clone().native())));
    for pz in [pc.clone().toll0(), pc.clone().spread0()] {
        add(Tier::Quick, format!("fund.close.{}", pz.tag()), d, 600, 150, Box::new(t_fund(pz.clone(), 0)));
        add(Tier::Quick, format!("fund.close.{}", pz.clone().native().tag()), d, 600, 150, Box::new(t_fund(pz.clone().native(), 0)));
        add(Tier::Quick, format!("opp.{}", pz.clone().native().tag()), d, 800, 150, Box::new(t_open2(pz.clone().native(), false)));
        add(Tier::Quick, format!("inc.{}", pz.tag()), d, 600, 150, Box::new(t_open2(pz.clone(), true)));
    }
    add(Tier::Quick, format!("opp.{}", pc.clone().native().sym_funds().tag()), d, 800, 150, Box::new(t_open2(pc.clone().native().sym_funds(), false)));
    add(Tier::Quick, format!("opp.{}", P::new(prop, Sell, seed).fees().concrete_prefix().native().sym_funds().tag()), d, 800, 150, Box::new(t_open2(P::new(prop, Sell, seed).fees().concrete_prefix().native().sym_funds(), false)));
    add(Tier::Quick, format!("close.against.{}", pc.clone().native().tag()), d, 400, 150, Box::new(t_close(pc.clone().native(), false)));
    add(Tier::Quick, format!("close.with.{}", P::new(prop, Sell, seed).fees().concrete_prefix().native().tag()), d, 400, 150, Box::new(t_close(P::new(prop, Sell, seed).fees().concrete_prefix().native(), true)));
    add(Tier::Quick, format!("fund.close.{}", pc.clone().native().tag()), d, 600, 150, Box::new(t_fund(pc.clone().native(), 0)));
    add(Tier::Quick, format!("close.against.{}", pc.clone().vamm_ins_outsider().tag()), d, 400, 150, Box::new(t_close(pc.clone().vamm_ins_outsider(), false)));
    add(Tier::Quick, format!("opp.{}", pc.clone().vamm_ins_outsider().tag()), d, 800, 150, Box::new(t_open2(pc.clone().vamm_ins_outsider(), false)));
    v
}

/// C04: closes after price moves / funding, with and without fees
pub fn c04(seed: u64) -> Vec<Scenario> {
    let prop = "C04";
    let mut v: Vec<Scenario> = vec![];
    let mut add = |tier: Tier, name: String, desc: &str, paths: u64, secs: u64, f: Box<dyn Fn()>| {
        v.push(sc(prop, tier, &format!("c04.{}", name), desc, paths, secs, f));
    };
    let d = "close after a counter-party moved the price by a symbolic amount (either direction), optionally after a funding settlement with a symbolic oracle price, with and without fees; equity = margin + (vAMM quote - open notional, signed) - funding recomputed from queries made before the close";
    for side in [Buy, Sell] {
        let p = P::new(prop, side.clone(), seed);
        let pc = p.clone().concrete_prefix();
        add(Tier::Quick, format!("close.against.{}", p.tag()), d, 400, 150, Box::new(t_close(pc.clone(), false)));
        add(Tier::Quick, format!("close.with.{}", p.tag()), d, 400, 150, Box::new(t_close(pc.clone(), true)));
        add(Tier::Quick, format!("close.against.{}", p.clone().fees().tag()), d, 400, 150, Box::new(t_close(pc.clone().fees(), false)));
        add(Tier::Quick, format!("close.against.{}", p.clone().lim().tag()), d, 400, 150, Box::new(t_close(pc.clone().lim(), false)));
        add(Tier::Quick, format!("fund.close.{}", p.tag()), d, 600, 150, Box::new(t_fund(pc.clone(), 0)));
        add(Tier::Quick, format!("fund.close.{}", p.clone().fees().tag()), d, 600, 150, Box::new(t_fund(pc.clone().fees(), 0)));
        add(Tier::Quick, format!("fund.pclose.close.{}", p.tag()), d, 600, 150, Box::new(t_fund_pclose(pc.clone())));
        add(Tier::Quick, format!("fund.increase.close.{}", p.tag()), d, 600, 150, Box::new(t_fund(pc.clone(), 5)));
        add(Tier::Quick, format!("fund.open-after.reduce.close.{}", p.tag()), d, 600, 150, Box::new(t_fund(pc.clone(), 6)));
        add(Tier::Quick, format!("fund.open-after.fund-again.close.{}", p.tag()), d, 600, 150, Box::new(t_fund(pc.clone(), 7)));
        add(Tier::Quick, format!("fund.increase.close.{}", pc.clone().trend().fees().tag()), d, 600, 150, Box::new(t_fund(pc.clone().trend().fees(), 5)));
        add(Tier::Quick, format!("fund.liq.close.{}", p.tag()), d, 600, 150, Box::new(t_fund_liq(pc.clone(), true)));
        add(Tier::Quick, format!("fund.close.{}", pc.clone().trend().tag()), d, 600, 150, Box::new(t_fund(pc.clone().trend(), 0)));
        add(Tier::Quick, format!("fund.pclose.close.{}", pc.clone().trend().tag()), d, 600, 150, Box::new(t_fund_pclose(pc.clone().trend())));
        add(Tier::Quick, format!("opp-after-move.{}", p.tag()), d, 600, 150, Box::new(t_opp_after_move(pc.clone(), false)));
        for (rn, ru) in [("healthy", 3u128), ("zero-equity", 7), ("bad-debt", 45)] {
            add(Tier::Quick, format!("close10x.{}.{}", rn, p.tag()), d, 400, 150, Box::new(t_close_regime(pc.clone(), ru)));
        }
        add(Tier::Quick, format!("close10x.zero-equity.{}", p.clone().fees().tag()), d, 400, 150, Box::new(t_close_regime(pc.clone().fees(), 7)));
        add(Tier::Quick, format!("dep-close.{}", p.clone().fees().tag()), d, 400, 150, Box::new(t_dep_close(pc.clone().fees(), 45)));
        add(Tier::Quick, format!("pclose.against.{}", p.tag()), d, 400, 150, Box::new(t_pclose(pc.clone(), false)));
        add(Tier::Quick, format!("pclose.with.{}", p.tag()), d, 400, 150, Box::new(t_pclose(pc.clone(), true)));
        add(Tier::Quick, format!("pclose.against.{}", p.clone().fees().tag()), d, 400, 150, Box::new(t_pclose(pc.clone().fees(), false)));
        add(Tier::Quick, format!("pclose.with.{}", p.clone().native().tag()), d, 400, 150, Box::new(t_pclose(pc.clone().native(), true)));
        add(Tier::Quick, format!("prepaid-closes.{}", p.tag()), d, 400, 150, Box::new(t_prepaid_closes(pc.clone())));
        add(Tier::Quick, format!("prepaid-closes.{}", p.clone().native().fees().tag()), d, 400, 150, Box::new(t_prepaid_closes(pc.clone().native().fees())));
        add(Tier::Quick, format!("dep-close.{}", p.clone().native().tag()), d, 400, 150, Box::new(t_dep_close(pc.clone().native(), 45)));
        add(Tier::Quick, format!("opp.{}", p.tag()), d, 600, 150, Box::new(t_open2(pc.clone(), false)));
        add(Tier::Quick, format!("depwd.{}", p.tag()), d, 400, 120, Box::new(t_depwd(pc.clone())));
        add(Tier::Quick, format!("close.against.{}", p.clone().native().tag()), d, 400, 150, Box::new(t_close(pc.clone().native(), false)));
        add(Tier::Thorough, format!("close.sym.{}", p.clone().fees().tag()), d, 1500, 900, Box::new(t_close(p.clone().fees(), false)));
        add(Tier::Thorough, format!("fund.close.sym.{}", p.tag()), d, 1500, 900, Box::new(t_fund(p.clone(), 0)));
    }
    v
}

/// C05: margin requirements after opens, withdrawals and deposits
pub fn c05(seed: u64) -> Vec<Scenario> {
    let prop = "C05";
    let mut v: Vec<Scenario> = vec![];
    let mut add = |tier: Tier, name: String, desc: &str, paths: u64, secs: u64, f: Box<dyn Fn()>| {
        v.push(sc(prop, tier, &format!("c05.{}", name), desc, paths, secs, f));
    };
    let d = "margin and leverage symbolic (leverage over [0, 1000] incl. non-integer multiples and the 1/initial boundary); after every successful open the MarginRatio query is >= maintenance and equals the ratio recomputed from Position / OutputAmount / OutputTwap / cumulative premium; withdraw / deposit accounting";
    for side in [Buy, Sell] {
        let p = P::new(prop, side.clone(), seed);
        let pc = p.clone().concrete_prefix();
        add(Tier::Quick, format!("open.{}", p.clone().lev().tag()), d, 600, 150, Box::new(t_open(p.clone().lev())));
        add(Tier::Quick, format!("open.{}", p.clone().lev().ratios().tag()), d, 800, 150, Box::new(t_open(p.clone().lev().ratios())));
        add(Tier::Quick, format!("opp.{}", p.clone().ratios().tag()), d, 800, 150, Box::new(t_open2(pc.clone().ratios(), false)));
        add(Tier::Quick, format!("inc.{}", p.clone().lev().tag()), d, 600, 150, Box::new(t_open2(pc.clone().lev(), true)));
        add(Tier::Quick, format!("opp.{}", p.clone().lev().tag()), d, 600, 150, Box::new(t_open2(pc.clone().lev(), false)));
        add(Tier::Quick, format!("opp.{}", p.tag()), d, 600, 150, Box::new(t_open2(pc.clone(), false)));
        add(Tier::Quick, format!("depwd.{}", p.tag()), d, 400, 120, Box::new(t_depwd(pc.clone())));
        add(Tier::Quick, format!("adverse.withdraw.{}", p.tag()), d, 400, 150, Box::new(t_adverse_withdraw(pc.clone(), 15)));
        add(Tier::Quick, format!("adverse.withdraw.deep.{}", p.tag()), d, 400, 150, Box::new(t_adverse_withdraw(pc.clone(), 40)));
        add(Tier::Quick, format!("fund.withdraw.{}", p.tag()), d, 600, 150, Box::new(t_fund(pc.clone(), 1)));
        add(Tier::Quick, format!("fund.increase.{}", p.tag()), d, 600, 150, Box::new(t_fund(pc.clone(), 2)));
        add(Tier::Quick, format!("fund.withdraw.{}", pc.clone().trend().tag()), d, 600, 150, Box::new(t_fund(pc.clone().trend(), 1)));
        add(Tier::Quick, format!("fund.increase.{}", pc.clone().trend().tag()), d, 600, 150, Box::new(t_fund(pc.clone().trend(), 2)));
        add(Tier::Quick, format!("fund.reverse.{}", pc.clone().trend().tag()), d, 600, 150, Box::new(t_fund(pc.clone().trend(), 3)));
        add(Tier::Quick, format!("opp-after-move.{}", p.tag()), d, 600, 150, Box::new(t_opp_after_move(pc.clone(), false)));
        add(Tier::Quick, format!("fund.pclose.withdraw.increase.{}", p.tag()), d, 600, 150, Box::new(t_fund_pclose_then(pc.clone(), 2)));
        add(Tier::Quick, format!("fund.pclose.withdraw.increase.{}", pc.clone().trend().tag()), d, 600, 150, Box::new(t_fund_pclose_then(pc.clone().trend(), 2)));
        add(Tier::Thorough, format!("open.{}", p.clone().lev().wide().tag()), d, 2000, 900, Box::new(t_open(p.clone().lev().wide())));
        add(Tier::Thorough, format!("opp.sym.{}", p.clone().lev().tag()), d, 1500, 900, Box::new(t_open2(p.clone().lev(), false)));
    }
    let p = P::new(prop, Buy, seed);
    add(Tier::Quick, format!("depwd.{}", p.clone().native().tag()), d, 400, 120, Box::new(t_depwd(p.clone().concrete_prefix().native())));
    add(Tier::Quick, format!("depwd.{}", p.clone().native().sym_funds().tag()), d, 400, 120, Box::new(t_depwd(p.clone().concrete_prefix().native().sym_funds())));
    add(Tier::Quick, format!("depwd.{}", P::new(prop, Sell, seed).native().sym_funds().tag()), d, 400, 120, Box::new(t_depwd(P::new(prop, Sell, seed).concrete_prefix().native().sym_funds())));
    add(Tier::Quick, format!("open.{}", p.clone().lev().fees().tag()), d, 800, 150, Box::new(t_open(p.clone().lev().fees())));
    v
}

/// C06 / C07: liquidation templates with symbolic thresholds, oracle price and counter-trade size
pub fn liq(prop: &'static str, seed: u64) -> Vec<Scenario> {
    let lc = prop.to_lowercase();
    let mut v: Vec<Scenario> = vec![];
    let mut add = |tier: Tier, name: String, desc: &str, paths: u64, secs: u64, f: Box<dyn Fn()>| {
        v.push(sc(prop, tier, &format!("{}.{}", lc, name), desc, paths, secs, f));
    };
    let d = "alice 10x, counter-trade in a seeded regime (shallow ~3% / boundary ~0% / deep negative equity), third party liquidates; maintenance ratio, liquidation fee, partial-liquidation ratio, oracle price and (where '.counter') the counter-trade size symbolic; the margin ratio as defined for liquidation is recomputed by the harness from Position, OutputAmount, OutputTwap, cumulative premium, SpotPrice and UnderlyingPrice observed before the call";
    for side in [Buy, Sell] {
        let p = P::new(prop, side.clone(), seed);
        let pc = p.clone().concrete_prefix();
        for (rn, ru) in [("shallow", 5u128), ("boundary", 7), ("deep", 45)] {
            add(Tier::Quick, format!("{}.{}", rn, p.tag()), d, 400, 150, Box::new(t_liq(pc.clone(), ru)));
            add(Tier::Quick, format!("{}.{}", rn, pc.clone().partial().tag()), d, 600, 150, Box::new(t_liq(pc.clone().partial(), ru)));
            add(Tier::Quick, format!("{}.{}", rn, pc.clone().partial().oracle().tag()), d, 800, 150, Box::new(t_liq(pc.clone().partial().oracle(), ru)));
        }
        add(Tier::Quick, format!("shallow.{}", pc.clone().counter().tag()), d, 600, 150, Box::new(t_liq(pc.clone().counter(), 5)));
        add(Tier::Quick, format!("shallow.{}", pc.clone().partial().caps_lowered().tag()), d, 400, 150, Box::new(t_liq(pc.clone().partial().caps_lowered(), 5)));
        add(Tier::Quick, format!("deep.{}", pc.clone().caps_lowered().tag()), d, 400, 150, Box::new(t_liq(pc.clone().caps_lowered(), 45)));
        add(Tier::Quick, format!("shallow.{}", pc.clone().paused().tag()), d, 400, 150, Box::new(t_liq(pc.clone().paused(), 5)));
        add(Tier::Quick, format!("shallow.{}", pc.clone().bad_admin().tag()), d, 600, 150, Box::new(t_liq(pc.clone().bad_admin(), 5)));
        add(Tier::Quick, format!("shallow.{}", pc.clone().partial().bad_admin().tag()), d, 600, 150, Box::new(t_liq(pc.clone().partial().bad_admin(), 5)));
        add(Tier::Quick, format!("boundary.{}", pc.clone().partial().reopen().tag()), d, 600, 150, Box::new(t_liq(pc.clone().partial().reopen(), 7)));
        add(Tier::Quick, format!("deep.{}", pc.clone().feed_switch().tag()), d, 600, 150, Box::new(t_liq(pc.clone().feed_switch(), 45)));
        add(Tier::Quick, format!("shallow.{}", pc.clone().partial().feed_switch().tag()), d, 600, 150, Box::new(t_liq(pc.clone().partial().feed_switch(), 5)));
        add(Tier::Quick, format!("deep.{}", pc.clone().paused().tag()), d, 400, 150, Box::new(t_liq(pc.clone().paused(), 45)));
        add(Tier::Quick, format!("shallow.{}", pc.clone().fees().tag()), d, 600, 150, Box::new(t_liq(pc.clone().fees(), 5)));
        add(Tier::Quick, format!("shallow.{}", pc.clone().native().partial().tag()), d, 600, 150, Box::new(t_liq(pc.clone().native().partial(), 5)));
        add(Tier::Quick, format!("deep.{}", pc.clone().native().tag()), d, 600, 150, Box::new(t_liq(pc.clone().native(), 45)));
        add(Tier::Quick, format!("profitable-but-funding-debt.{}", pc.tag()), d, 600, 150, Box::new(t_liq_profitable(pc.clone())));
        add(Tier::Quick, format!("fund.pclose.liq.{}", pc.tag()), d, 600, 150, Box::new(t_fund_pclose_liq(pc.clone(), true)));
        add(Tier::Quick, format!("fund.pclose.liq.{}", pc.clone().trend().tag()), d, 600, 150, Box::new(t_fund_pclose_liq(pc.clone().trend(), true)));
        add(Tier::Quick, format!("fund.liq.full.{}", pc.tag()), d, 600, 150, Box::new(t_fund_liq(pc.clone(), false)));
        add(Tier::Quick, format!("fund.liq.partial.{}", pc.tag()), d, 600, 150, Box::new(t_fund_liq(pc.clone(), true)));
        add(Tier::Quick, format!("liq2.{}", pc.tag()), d, 600, 150, Box::new(t_liq2(pc.clone(), false)));
        add(Tier::Quick, format!("liq2.sameblock.{}", pc.tag()), d, 600, 150, Box::new(t_liq2(pc.clone(), true)));
        add(Tier::Quick, format!("two-same-block.{}", pc.tag()), d, 600, 150, Box::new(t_liq_two_same_block(pc.clone())));
        let d_band = "alice 10x under water (shallow / deep); a per-block price band with a symbolic limit; in the liquidation block another trader first moves the price (either way), then a third party liquidates, and again in the next block";
        for (rn, ru) in [("shallow", 5u128), ("deep", 45)] {
            add(Tier::Quick, format!("band.{}.mover-with.{}", rn, pc.tag()), d_band, 600, 150, Box::new(t_liq_band(pc.clone(), true, ru, false)));
            add(Tier::Quick, format!("band.{}.mover-against.{}", rn, pc.tag()), d_band, 600, 150, Box::new(t_liq_band(pc.clone(), false, ru, false)));
        }
        add(Tier::Thorough, format!("band.deep.mover-with.{}", pc.clone().partial().tag()), d_band, 600, 150, Box::new(t_liq_band(pc.clone().partial(), true, 45, false)));
        add(Tier::Quick, format!("band.shallow.mover-with.{}", pc.clone().partial().tag()), d_band, 600, 150, Box::new(t_liq_band(pc.clone().partial(), true, 5, false)));
        add(Tier::Thorough, format!("band.deep.mover-with.{}", pc.clone().counter().tag()), d_band, 600, 150, Box::new(t_liq_band(pc.clone().counter(), true, 45, false)));
        add(Tier::Thorough, format!("band.deep.mover-against.{}", pc.clone().counter().tag()), d_band, 600, 150, Box::new(t_liq_band(pc.clone().counter(), false, 45, false)));
        for (rn, ru) in [("shallow", 5u128), ("deep", 45)] {
            add(Tier::Quick, format!("band.cheap-pool.{}.mover-with.{}", rn, pc.tag()), d_band, 600, 150, Box::new(t_liq_band(pc.clone(), true, ru, true)));
            add(Tier::Quick, format!("band.cheap-pool.{}.mover-against.{}", rn, pc.tag()), d_band, 600, 150, Box::new(t_liq_band(pc.clone(), false, ru, true)));
        }
        add(Tier::Quick, format!("registry-permuted.{}", pc.tag()), "three registered vAMMs, the first removed from the registry (the stored list is re-ordered), liquidations on the remaining two", 400, 150, Box::new(t_liq_registry(pc.clone())));
        add(Tier::Quick, format!("prepaid-bad-debt.{}", pc.tag()), d, 600, 150, Box::new(t_liq_prepaid(pc.clone())));
        add(Tier::Quick, format!("prepaid-bad-debt.{}", pc.clone().native().tag()), d, 600, 150, Box::new(t_liq_prepaid(pc.clone().native())));
        add(Tier::Quick, format!("shallow.{}", pc.clone().real_feed().tag()), d, 600, 150, Box::new(t_liq(pc.clone().real_feed(), 5)));
        add(Tier::Quick, format!("deep.{}", pc.clone().real_feed().partial().tag()), d, 600, 150, Box::new(t_liq(pc.clone().real_feed().partial(), 45)));
        add(Tier::Thorough, format!("shallow.{}", pc.clone().partial().counter().oracle().tag()), d, 3000, 1200, Box::new(t_liq(pc.clone().partial().counter().oracle(), 5)));
        add(Tier::Thorough, format!("boundary.{}", pc.clone().partial().counter().tag()), d, 3000, 1200, Box::new(t_liq(pc.clone().partial().counter(), 7)));
        add(Tier::Thorough, format!("deep.{}", pc.clone().partial().counter().tag()), d, 3000, 1200, Box::new(t_liq(pc.clone().partial().counter(), 45)));
        add(Tier::Thorough, format!("sym.{}", p.clone().partial().tag()), d, 3000, 1200, Box::new(t_liq(p.clone().partial(), 6)));
    }
    v
}

/// C08 fault enumeration: the transaction(s) under test of each template with the n-th call to a
/// contract / the bank module failing (one fault at a time)
pub fn faults(seed: u64) -> Vec<Scenario> {
    let prop = "C08";
    let mut v: Vec<Scenario> = vec![];
    let d = "fault injection: the n-th invocation of the named site during the transaction under test fails; if the fault fired the top-level call must return an error and (monitor) all raw storage and balances must be unchanged with no in-flight residue; amounts of the transaction under test symbolic (the message tree's shape depends on them)";
    let cw20_sites: Vec<(&'static str, u64)> = vec![("vamm:execute", 1), ("vamm:execute", 2), ("cw20:execute", 1), ("cw20:execute", 2), ("cw20:execute", 3), ("cw20:execute", 4), ("insurance_fund:execute", 1), ("engine:reply", 1), ("engine:reply", 2), ("engine:reply", 3)];
    let native_sites: Vec<(&'static str, u64)> = vec![("vamm:execute", 1), ("bank:execute", 1), ("bank:execute", 2), ("bank:execute", 3), ("insurance_fund:execute", 1), ("engine:reply", 1)];
    for (site, n) in cw20_sites {
        let tag = format!("{}#{}", site.replace(':', "-"), n);
        for side in [Buy, Sell] {
            let p = P::new(prop, side.clone(), seed).concrete_prefix().fees().fault(site, n);
            let sn = if side == Buy { "long" } else { "short" };
            let mut add = |tier: Tier, name: &str, f: Box<dyn Fn()>| v.push(sc(prop, tier, &format!("c08.fault.{}.{}.{}", name, sn, tag), d, 300, 90, f));
            // the deepest positions of each site are thorough-only
            let deep = (site == "cw20:execute" && n >= 4) || (site == "engine:reply" && n >= 3);
            let tier = if side == Buy && !deep { Tier::Quick } else { Tier::Thorough };
            add(tier, "open", Box::new(t_open(p.clone())));
            add(tier, "opp", Box::new(t_open2(p.clone(), false)));
            add(Tier::Thorough, "inc", Box::new(t_open2(p.clone(), true)));
            add(tier, "close", Box::new(t_close(p.clone(), false)));
            add(tier, "liq.shallow", Box::new(t_liq(p.clone(), 5)));
            add(tier, "liq.deep.partial", Box::new(t_liq(p.clone().partial(), 45)));
            add(Tier::Thorough, "liq.deep", Box::new(t_liq(p.clone(), 45)));
            add(tier, "fund.close", Box::new(t_fund(p.clone(), 0)));
            add(tier, "pclose", Box::new(t_pclose(p.clone(), false)));
            add(Tier::Thorough, "depwd", Box::new(t_depwd(p.clone())));
        }
    }
    for (site, n) in native_sites {
        let tag = format!("{}#{}", site.replace(':', "-"), n);
        let p = P::new(prop, Buy, seed).concrete_prefix().native().fees().fault(site, n);
        let mut add = |tier: Tier, name: &str, f: Box<dyn Fn()>| v.push(sc(prop, tier, &format!("c08.fault.{}.native.{}", name, tag), d, 300, 90, f));
        add(Tier::Quick, "open", Box::new(t_open(p.clone())));
        add(Tier::Quick, "close", Box::new(t_close(p.clone(), false)));
        add(Tier::Quick, "liq.shallow", Box::new(t_liq(p.clone(), 5)));
        add(Tier::Quick, "pclose", Box::new(t_pclose(p.clone(), false)));
        add(Tier::Thorough, "depwd", Box::new(t_depwd(p.clone())));
        add(Tier::Thorough, "fund.close", Box::new(t_fund(p.clone(), 0)));
    }
    v
}

/// generated histories for a property whose monitors / step oracle apply to every operation
pub fn generated(prop: &'static str, seed: u64, quick_n: u64, thorough_n: u64) -> Vec<Scenario> {
    let lc = prop.to_lowercase();
    let d = "pseudo-random history of 4-7 operations over three traders and two liquidators (opens of either side and several leverages, closes, deposits, withdrawals, liquidation attempts, funding settlements with oracle moves, block gaps of 15 s / 15 min), configuration (partial ratio, liquidation fee, fees) drawn per history; concrete amounts except the last operation's, which is symbolic; determined by (VERIF_SEED, index)";
    let mut v = vec![];
    for idx in 0..thorough_n {
        let p = P::new(prop, Buy, seed);
        let p = if idx % 5 == 4 { p.native() } else { p };
        let tier = if idx < quick_n { Tier::Quick } else { Tier::Thorough };
        v.push(sc(prop, tier, &format!("{}.gen.{:03}", lc, idx), d, 200, 60, t_gen(p, idx)));
    }
    v
}

/// C01 on engine-driven histories: the vAMM obligations after every engine transaction
pub fn c01_engine(seed: u64) -> Vec<Scenario> {
    let prop = "C01";
    let mut v: Vec<Scenario> = vec![];
    let d = "engine-driven histories with the C01 obligations (k non-decreasing, base + net position = initial base reserve, failed transaction leaves the vAMM unchanged) checked on the vAMM after every engine transaction";
    for side in [Buy, Sell] {
        let p = P::new(prop, side.clone(), seed);
        let pc = p.clone().concrete_prefix();
        let sn = p.tag();
        v.push(sc(prop, Tier::Quick, &format!("c01.engine.open.{}", sn), d, 300, 90, t_open(p.clone())));
        v.push(sc(prop, Tier::Quick, &format!("c01.engine.opp.{}", sn), d, 400, 90, t_open2(pc.clone(), false)));
        v.push(sc(prop, Tier::Quick, &format!("c01.engine.close.{}", sn), d, 300, 90, t_close(pc.clone(), false)));
        v.push(sc(prop, Tier::Quick, &format!("c01.engine.close.{}.reopen", sn), d, 300, 90, t_close(pc.clone().reopen(), false)));
        v.push(sc(prop, Tier::Quick, &format!("c01.engine.opp.{}.reopen", sn), d, 400, 90, t_open2(pc.clone().reopen(), false)));
        v.push(sc(prop, Tier::Quick, &format!("c01.engine.opp.{}.engine-switch", sn), d, 400, 90, t_open2(pc.clone().engine_switch(), false)));
        v.push(sc(prop, Tier::Quick, &format!("c01.engine.close.{}.engine-switch", sn), d, 300, 90, t_close(pc.clone().engine_switch(), false)));
        v.push(sc(prop, Tier::Quick, &format!("c01.engine.liq.partial.{}", sn), d, 400, 90, t_liq(pc.clone().partial(), 5)));
        v.push(sc(prop, Tier::Quick, &format!("c01.engine.liq.profitable.{}", sn), d, 400, 90, t_liq_profitable(pc.clone())));
        v.push(sc(prop, Tier::Thorough, &format!("c01.engine.opp.sym.{}", sn), d, 1500, 600, t_open2(p.clone(), false)));
    }
    v
}
