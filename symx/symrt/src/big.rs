//! Minimal arbitrary-precision signed integer (no dependencies).
//! Used for witness evaluation of symbolic terms, interval bounds and concrete replay of
//! specification-side arithmetic (which is over the mathematical integers).
use std::cmp::Ordering;

#[derive(Clone, Debug, PartialEq, Eq, Hash)]
pub struct Big {
    neg: bool,
    mag: Vec<u32>, // little endian, no trailing zero limbs; zero = empty and !neg
}

fn trim(v: &mut Vec<u32>) {
    while let Some(&0) = v.last() {
        v.pop();
    }
}

fn cmp_mag(a: &[u32], b: &[u32]) -> Ordering {
    if a.len() != b.len() {
        return a.len().cmp(&b.len());
    }
    for i in (0..a.len()).rev() {
        if a[i] != b[i] {
            return a[i].cmp(&b[i]);
        }
    }
    Ordering::Equal
}

fn add_mag(a: &[u32], b: &[u32]) -> Vec<u32> {
    let (a, b) = if a.len() >= b.len() { (a, b) } else { (b, a) };
    let mut out = Vec::with_capacity(a.len() + 1);
    let mut carry = 0u64;
    for i in 0..a.len() {
        let s = a[i] as u64 + if i < b.len() { b[i] as u64 } else { 0 } + carry;
        out.push(s as u32);
        carry = s >> 32;
    }
    if carry > 0 {
        out.push(carry as u32);
    }
    out
}

// a >= b required
fn sub_mag(a: &[u32], b: &[u32]) -> Vec<u32> {
    let mut out = Vec::with_capacity(a.len());
    let mut borrow = 0i64;
    for i in 0..a.len() {
        let mut d = a[i] as i64 - borrow - if i < b.len() { b[i] as i64 } else { 0 };
        if d < 0 {
            d += 1 << 32;
            borrow = 1;
        } else {
            borrow = 0;
        }
        out.push(d as u32);
    }
    trim(&mut out);
    out
}

fn mul_mag(a: &[u32], b: &[u32]) -> Vec<u32> {
    if a.is_empty() || b.is_empty() {
        return vec![];
    }
    let mut out = vec![0u32; a.len() + b.len()];
    for i in 0..a.len() {
        let mut carry = 0u64;
        for j in 0..b.len() {
            let t = out[i + j] as u64 + a[i] as u64 * b[j] as u64 + carry;
            out[i + j] = t as u32;
            carry = t >> 32;
        }
        let mut k = i + b.len();
        while carry > 0 {
            let t = out[k] as u64 + carry;
            out[k] = t as u32;
            carry = t >> 32;
            k += 1;
        }
    }
    trim(&mut out);
    out
}

fn divrem_small(a: &[u32], d: u32) -> (Vec<u32>, u32) {
    let mut out = vec![0u32; a.len()];
    let mut rem = 0u64;
    for i in (0..a.len()).rev() {
        let cur = (rem << 32) | a[i] as u64;
        out[i] = (cur / d as u64) as u32;
        rem = cur % d as u64;
    }
    trim(&mut out);
    (out, rem as u32)
}

fn shl1(v: &mut Vec<u32>, bit: u32) {
    let mut carry = bit;
    for x in v.iter_mut() {
        let nc = *x >> 31;
        *x = (*x << 1) | carry;
        carry = nc;
    }
    if carry > 0 {
        v.push(carry);
    }
}

// magnitudes; b non-empty
fn divrem_mag(a: &[u32], b: &[u32]) -> (Vec<u32>, Vec<u32>) {
    if cmp_mag(a, b) == Ordering::Less {
        return (vec![], a.to_vec());
    }
    if b.len() == 1 {
        let (q, r) = divrem_small(a, b[0]);
        let mut rv = vec![r];
        trim(&mut rv);
        return (q, rv);
    }
    // bitwise long division (operands are at most a few hundred bits)
    let nbits = a.len() * 32;
    let mut q = vec![0u32; a.len()];
    let mut r: Vec<u32> = vec![];
    for i in (0..nbits).rev() {
        let bit = (a[i / 32] >> (i % 32)) & 1;
        shl1(&mut r, bit);
        trim(&mut r);
        if cmp_mag(&r, b) != Ordering::Less {
            r = sub_mag(&r, b);
            q[i / 32] |= 1 << (i % 32);
        }
    }
    trim(&mut q);
    (q, r)
}

impl Big {
    pub fn zero() -> Big {
        Big { neg: false, mag: vec![] }
    }
    pub fn one() -> Big {
        Big::from_u128(1)
    }
    pub fn from_u128(v: u128) -> Big {
        let mut mag = vec![v as u32, (v >> 32) as u32, (v >> 64) as u32, (v >> 96) as u32];
        trim(&mut mag);
        Big { neg: false, mag }
    }
    pub fn from_i128(v: i128) -> Big {
        let mut b = Big::from_u128(v.unsigned_abs());
        b.neg = v < 0 && !b.mag.is_empty();
        b
    }
    pub fn pow2(k: u32) -> Big {
        let mut mag = vec![0u32; (k / 32) as usize + 1];
        mag[(k / 32) as usize] = 1 << (k % 32);
        Big { neg: false, mag }
    }
    pub fn is_zero(&self) -> bool {
        self.mag.is_empty()
    }
    pub fn is_neg(&self) -> bool {
        self.neg
    }
    pub fn to_u128(&self) -> Option<u128> {
        if self.neg || self.mag.len() > 4 {
            return None;
        }
        let mut v = 0u128;
        for (i, x) in self.mag.iter().enumerate() {
            v |= (*x as u128) << (32 * i);
        }
        Some(v)
    }
    pub fn neg(&self) -> Big {
        Big { neg: !self.neg && !self.mag.is_empty(), mag: self.mag.clone() }
    }
    pub fn abs(&self) -> Big {
        Big { neg: false, mag: self.mag.clone() }
    }
    pub fn add(&self, o: &Big) -> Big {
        if self.neg == o.neg {
            return Big { neg: self.neg, mag: add_mag(&self.mag, &o.mag) };
        }
        match cmp_mag(&self.mag, &o.mag) {
            Ordering::Equal => Big::zero(),
            Ordering::Greater => Big { neg: self.neg, mag: sub_mag(&self.mag, &o.mag) },
            Ordering::Less => Big { neg: o.neg, mag: sub_mag(&o.mag, &self.mag) },
        }
    }
    pub fn sub(&self, o: &Big) -> Big {
        self.add(&o.neg())
    }
    pub fn mul(&self, o: &Big) -> Big {
        let mag = mul_mag(&self.mag, &o.mag);
        let neg = (self.neg != o.neg) && !mag.is_empty();
        Big { neg, mag }
    }
    /// truncating division (toward zero) and remainder with the sign of the dividend
    pub fn divrem_trunc(&self, o: &Big) -> Option<(Big, Big)> {
        if o.mag.is_empty() {
            return None;
        }
        let (q, r) = divrem_mag(&self.mag, &o.mag);
        let qn = (self.neg != o.neg) && !q.is_empty();
        let rn = self.neg && !r.is_empty();
        Some((Big { neg: qn, mag: q }, Big { neg: rn, mag: r }))
    }
    /// SMT-LIB `div` / `mod`: Euclidean (remainder always non-negative)
    pub fn divrem_euclid(&self, o: &Big) -> Option<(Big, Big)> {
        let (q, r) = self.divrem_trunc(o)?;
        if r.neg {
            // r < 0: adjust
            if o.neg {
                Some((q.add(&Big::one()), r.sub(o)))
            } else {
                Some((q.sub(&Big::one()), r.add(o)))
            }
        } else {
            Some((q, r))
        }
    }
    pub fn parse(s: &str) -> Option<Big> {
        let (neg, digits) = match s.strip_prefix('-') {
            Some(d) => (true, d),
            None => (false, s),
        };
        if digits.is_empty() || !digits.bytes().all(|c| c.is_ascii_digit()) {
            return None;
        }
        let mut mag: Vec<u32> = vec![];
        for chunk in digits.as_bytes().chunks(9) {
            let mut m = 1u32;
            let mut v = 0u32;
            for c in chunk {
                v = v * 10 + (c - b'0') as u32;
                m *= 10;
            }
            // mag = mag * m + v
            let mut carry = v as u64;
            for x in mag.iter_mut() {
                let t = *x as u64 * m as u64 + carry;
                *x = t as u32;
                carry = t >> 32;
            }
            if carry > 0 {
                mag.push(carry as u32);
            }
        }
        trim(&mut mag);
        let neg = neg && !mag.is_empty();
        Some(Big { neg, mag })
    }
}

impl std::fmt::Display for Big {
    fn fmt(&self, f: &mut std::fmt::Formatter) -> std::fmt::Result {
        if self.mag.is_empty() {
            return f.write_str("0");
        }
        let mut parts: Vec<u32> = vec![];
        let mut cur = self.mag.clone();
        while !cur.is_empty() {
            let (q, r) = divrem_small(&cur, 1_000_000_000);
            parts.push(r);
            cur = q;
        }
        let mut s = String::new();
        if self.neg {
            s.push('-');
        }
        s += &format!("{}", parts.last().unwrap());
        for p in parts.iter().rev().skip(1) {
            s += &format!("{:09}", p);
        }
        f.write_str(&s)
    }
}

impl PartialOrd for Big {
    fn partial_cmp(&self, o: &Big) -> Option<Ordering> {
        Some(self.cmp(o))
    }
}
impl Ord for Big {
    fn cmp(&self, o: &Big) -> Ordering {
        match (self.neg, o.neg) {
            (false, true) => Ordering::Greater,
            (true, false) => Ordering::Less,
            (false, false) => cmp_mag(&self.mag, &o.mag),
            (true, true) => cmp_mag(&o.mag, &self.mag),
        }
    }
}

#[cfg(test)]
mod tests {
    use super::*;
    #[test]
    fn basics() {
        let a = Big::from_u128(u128::MAX);
        let b = a.mul(&a);
        assert_eq!(b.to_string(), "115792089237316195423570985008687907852589419931798687112530834793049593217025");
        let (q, r) = b.divrem_trunc(&a).unwrap();
        assert_eq!(q, a);
        assert!(r.is_zero());
        let c = Big::parse("-123456789012345678901234567890").unwrap();
        assert_eq!(c.to_string(), "-123456789012345678901234567890");
        let (q, r) = c.divrem_euclid(&Big::from_u128(1000)).unwrap();
        assert_eq!(q.to_string(), "-123456789012345678901234568");
        assert_eq!(r.to_string(), "110");
        let (q, r) = c.divrem_trunc(&Big::from_u128(1000)).unwrap();
        assert_eq!(q.to_string(), "-123456789012345678901234567");
        assert_eq!(r.to_string(), "-890");
        assert_eq!(Big::from_i128(-5).add(&Big::from_i128(5)), Big::zero());
        assert!(Big::from_i128(-5) < Big::from_i128(3));
        // multi-limb divisor
        let x = Big::parse("340282366920938463463374607431768211455000000000000000007").unwrap();
        let y = Big::parse("18446744073709551629").unwrap();
        let (q, r) = x.divrem_trunc(&y).unwrap();
        assert_eq!(q.mul(&y).add(&r), x);
        assert!(r < y);
        for (a, b) in [(7i128, 2i128), (-7, 2), (7, -2), (-7, -2), (6, 3), (-6, 3)] {
            let (q, r) = Big::from_i128(a).divrem_euclid(&Big::from_i128(b)).unwrap();
            assert_eq!(q.to_string(), a.div_euclid(b).to_string());
            assert_eq!(r.to_string(), a.rem_euclid(b).to_string());
        }
    }
}
