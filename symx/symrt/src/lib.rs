//! symrt — symbolic runtime for native symbolic execution through a symbolic `Uint128`.
//!
//! * `SymU128` is the payload of the patched `cosmwasm_std::Uint128`: a concrete u128 or a node in
//!   a per-path term arena over the mathematical integers.
//! * every comparison / zero test / overflow check on a symbolic value calls [`decide`]: the
//!   path's concrete *witness* (a model of the path condition) picks the side that is followed,
//!   and the SMT solver is asked whether the other side is satisfiable too; if so the flipped
//!   prefix is queued together with the solver's model (the new path's witness).
//! * [`prove`] is the deciding step for properties: `pc ∧ ¬claim` unsat ⇒ the claim holds for
//!   every value of every symbolic variable on this path; sat ⇒ concrete counterexample.
//! * in `Mode::Concrete` (replay / trace validation, also used by the build against the real
//!   cosmwasm-std) variables are bound to a given assignment and everything folds to constants.
pub mod big;
pub use big::Big;
use std::cell::RefCell;
use std::collections::BTreeMap;
use std::io::{BufRead, BufReader, Write};
use std::process::{Child, ChildStdin, ChildStdout, Command, Stdio};
use std::time::Instant;

#[derive(Clone, Copy, Debug)]
pub enum SymU128 {
    C(u128),
    S(u32),
}
pub type X = SymU128;

#[derive(Clone, Debug)]
pub enum Node {
    Var { name: String, lo: u128, hi: u128 },
    // machine-side (values are non-negative; range established by the path condition)
    Add(X, X),
    Sub(X, X),
    Mul(X, X),
    Div(X, X),
    Rem(X, X),
    // specification-side, mathematical integers
    IConst(Big),
    INeg(X),
    IAdd(X, X),
    ISub(X, X),
    IMul(X, X),
    IDivE(X, X),
    IModE(X, X),
    IIte(Box<Cond>, X, X),
}

#[derive(Clone, Debug)]
pub enum Cond {
    True,
    False,
    Lt(X, X),
    Le(X, X),
    Eq(X, X),
    Not(Box<Cond>),
    And(Vec<Cond>),
    Or(Vec<Cond>),
}

impl Cond {
    pub fn not(self) -> Cond {
        match self {
            Cond::True => Cond::False,
            Cond::False => Cond::True,
            Cond::Not(c) => *c,
            c => Cond::Not(Box::new(c)),
        }
    }
    pub fn and(self, o: Cond) -> Cond {
        Cond::And(vec![self, o])
    }
    pub fn or(self, o: Cond) -> Cond {
        Cond::Or(vec![self, o])
    }
    pub fn implies(self, o: Cond) -> Cond {
        Cond::Or(vec![self.not(), o])
    }
    pub fn iff(self, o: Cond) -> Cond {
        Cond::And(vec![self.clone().implies(o.clone()), o.implies(self)])
    }
    pub fn all(v: Vec<Cond>) -> Cond {
        Cond::And(v)
    }
    pub fn from_bool(b: bool) -> Cond {
        if b {
            Cond::True
        } else {
            Cond::False
        }
    }
}

/// control-flow payloads raised with panic_any; never to be swallowed by scenario code
pub struct InfeasiblePath;
pub struct Diverged(pub String);
pub struct Abort(pub String);

#[derive(Clone, Copy, Debug, PartialEq, Eq)]
pub enum Mode {
    Sym,
    Concrete,
}

#[derive(Clone, Copy, Debug, PartialEq, Eq)]
pub enum SatRes {
    Sat,
    Unsat,
    Unknown,
}

pub const ZONE_BASE: u128 = u128::MAX - (1u128 << 32);
/// largest value a symbolic variable may take (just below the handle zone)
pub const VAR_MAX: u128 = ZONE_BASE - 1;

// ------------------------------------------------------------------------------------------
// solver process
// ------------------------------------------------------------------------------------------
struct Solver {
    _child: Child,
    stdin: ChildStdin,
    stdout: BufReader<ChildStdout>,
    errors: u64,
    seq: u64,
}

impl Solver {
    fn new() -> Self {
        let bin = std::env::var("SYMX_Z3").unwrap_or_else(|_| "z3-new".to_string());
        let mut child = Command::new(bin)
            .arg("-in")
            .stdin(Stdio::piped())
            .stdout(Stdio::piped())
            .stderr(Stdio::null())
            .spawn()
            .expect("spawn z3");
        let stdin = child.stdin.take().unwrap();
        let stdout = BufReader::new(child.stdout.take().unwrap());
        Solver { _child: child, stdin, stdout, errors: 0, seq: 0 }
    }
    fn send(&mut self, s: &str) {
        self.stdin.write_all(s.as_bytes()).unwrap();
        self.stdin.write_all(b"\n").unwrap();
    }
    fn read_line(&mut self) -> String {
        self.stdin.flush().unwrap();
        let mut l = String::new();
        self.stdout.read_line(&mut l).unwrap();
        l.trim().to_string()
    }
    /// send a command and read every output line up to a fresh echo marker (resynchronises the
    /// stream whatever the solver printed)
    fn ask(&mut self, cmd: &str) -> Vec<String> {
        self.seq += 1;
        let marker = format!("symx-mark-{}", self.seq);
        self.send(&format!("{}\n(echo \"{}\")", cmd, marker));
        let mut out = vec![];
        loop {
            let l = self.read_line();
            if l.trim_matches('"') == marker {
                break;
            }
            if l.is_empty() {
                // EOF: the solver died
                if self.dead() {
                    out.push("(error \"solver process ended\")".to_string());
                    break;
                }
                continue;
            }
            out.push(l);
        }
        out
    }
    fn dead(&mut self) -> bool {
        matches!(self._child.try_wait(), Ok(Some(_)))
    }
    #[allow(dead_code)]
    fn read_sexpr(&mut self) -> String {
        let mut acc = String::new();
        let mut depth = 0i32;
        loop {
            let l = self.read_line();
            for ch in l.chars() {
                if ch == '(' {
                    depth += 1
                } else if ch == ')' {
                    depth -= 1
                }
            }
            acc += &l;
            acc.push(' ');
            if depth <= 0 {
                break;
            }
        }
        acc
    }
}

impl Drop for Solver {
    fn drop(&mut self) {
        let _ = self.stdin.write_all(b"(exit)\n");
        let _ = self._child.kill();
        let _ = self._child.wait();
    }
}

// ------------------------------------------------------------------------------------------
// records
// ------------------------------------------------------------------------------------------
#[derive(Clone, Debug, PartialEq, Eq)]
pub enum Verdict {
    Proved,
    ConcreteTrue,
    Refuted,
    ConcreteFalse,
    Unknown,
}

#[derive(Clone, Debug)]
pub struct ObRecord {
    pub label: String,
    pub verdict: Verdict,
    /// assignment of all variables (counterexample for Refuted; witness otherwise)
    pub assignment: BTreeMap<String, u128>,
    pub ms: u128,
    pub path: u64,
    pub detail: String,
}

#[derive(Clone, Debug, Default)]
pub struct PathRecord {
    pub id: u64,
    pub assignment: BTreeMap<String, u128>,
    pub events: Vec<String>,
    pub decisions: Vec<bool>,
    pub ended: String,
}

#[derive(Clone, Debug, Default)]
pub struct Report {
    /// boundary-restart work items dropped because the restart time budget was used up
    pub restarts_skipped: u64,
    pub paths: u64,
    pub infeasible: u64,
    pub diverged: u64,
    pub aborted: Vec<String>,
    pub decisions: u64,
    pub queries: u64,
    pub solver_ms: u128,
    pub unknown_feasibility: u64,
    pub interval_decided: u64,
    pub search_hits: u64,
    pub search_evals: u64,
    pub rel_decided: u64,
    pub path_cap_hit: bool,
    pub time_cap_hit: bool,
    pub solver_errors: u64,
    pub obligations: Vec<ObRecord>,
    pub path_records: Vec<PathRecord>,
    pub vars: BTreeMap<String, (u128, u128)>,
}

pub struct Opts {
    pub max_paths: u64,
    pub max_secs: u64,
    pub feas_timeout_ms: u64,
    pub feas_retry_ms: u64,
    pub prove_timeout_ms: u64,
    pub prove_retry_ms: u64,
    pub assignment: BTreeMap<String, u128>,
    pub mode: Mode,
    pub keep_paths: usize,
}

impl Default for Opts {
    fn default() -> Self {
        Opts {
            max_paths: 2000,
            max_secs: 600,
            feas_timeout_ms: 400,
            feas_retry_ms: 4000,
            prove_timeout_ms: 5000,
            prove_retry_ms: 30000,
            assignment: BTreeMap::new(),
            mode: Mode::Sym,
            keep_paths: 100000,
        }
    }
}

// ------------------------------------------------------------------------------------------
// context
// ------------------------------------------------------------------------------------------
type Iv = Option<(Big, Big)>;

struct Ctx {
    mode: Mode,
    active: bool,
    full: bool,
    nodes: Vec<Node>,
    wit: Vec<Big>,
    iv: Vec<Iv>,
    deps: Vec<u64>,
    cons: std::collections::HashMap<(u8, (bool, u128), (bool, u128)), u32>,
    rel: std::collections::HashMap<((bool, u128), (bool, u128)), u8>,
    rel_decided: u64,
    search_hits: u64,
    search_evals: u64,
    var_ids: Vec<u32>,
    model: BTreeMap<String, u128>,
    pc: Vec<(Cond, bool)>,
    asserted: usize,
    emitted: usize,
    prefix: Vec<bool>,
    trace: Vec<bool>,
    pending: Vec<(Vec<bool>, BTreeMap<String, u128>)>,
    solver: Option<Solver>,
    events: Vec<String>,
    obligations: Vec<ObRecord>,
    path_id: u64,
    // options
    feas_timeout_ms: u64,
    feas_retry_ms: u64,
    prove_timeout_ms: u64,
    prove_retry_ms: u64,
    // stats
    queries: u64,
    solver_ms: u128,
    unknown_feasibility: u64,
    interval_decided: u64,
    decisions: u64,
    vars_seen: BTreeMap<String, (u128, u128)>,
}

thread_local! {
    static CTX: RefCell<Ctx> = RefCell::new(Ctx {
        mode: Mode::Concrete, active: false, full: true,
        nodes: vec![], wit: vec![], iv: vec![], deps: vec![], cons: std::collections::HashMap::new(), rel: std::collections::HashMap::new(), rel_decided: 0, search_hits: 0, search_evals: 0, var_ids: vec![], model: BTreeMap::new(),
        pc: vec![], asserted: 0, emitted: 0, prefix: vec![], trace: vec![], pending: vec![],
        solver: None, events: vec![], obligations: vec![], path_id: 0,
        feas_timeout_ms: 400, feas_retry_ms: 4000, prove_timeout_ms: 5000, prove_retry_ms: 30000,
        queries: 0, solver_ms: 0, unknown_feasibility: 0, interval_decided: 0, decisions: 0,
        vars_seen: BTreeMap::new(),
    });
}

fn term(v: X) -> String {
    match v {
        SymU128::C(c) => c.to_string(),
        SymU128::S(i) => format!("t{}", i),
    }
}

fn big_smt(b: &Big) -> String {
    if b.is_neg() {
        format!("(- {})", b.abs())
    } else {
        b.to_string()
    }
}

pub fn cond_smt(c: &Cond) -> String {
    match c {
        Cond::True => "true".into(),
        Cond::False => "false".into(),
        Cond::Lt(a, b) => format!("(< {} {})", term(*a), term(*b)),
        Cond::Le(a, b) => format!("(<= {} {})", term(*a), term(*b)),
        Cond::Eq(a, b) => format!("(= {} {})", term(*a), term(*b)),
        Cond::Not(x) => format!("(not {})", cond_smt(x)),
        Cond::And(v) => {
            if v.is_empty() {
                "true".into()
            } else {
                format!("(and {})", v.iter().map(cond_smt).collect::<Vec<_>>().join(" "))
            }
        }
        Cond::Or(v) => {
            if v.is_empty() {
                "false".into()
            } else {
                format!("(or {})", v.iter().map(cond_smt).collect::<Vec<_>>().join(" "))
            }
        }
    }
}

fn conc(c: &Cond) -> Option<bool> {
    use SymU128::C;
    match c {
        Cond::True => Some(true),
        Cond::False => Some(false),
        Cond::Lt(C(a), C(b)) => Some(a < b),
        Cond::Le(C(a), C(b)) => Some(a <= b),
        Cond::Eq(C(a), C(b)) => Some(a == b),
        Cond::Not(x) => conc(x).map(|v| !v),
        Cond::And(v) => {
            let mut all = true;
            for x in v {
                match conc(x) {
                    Some(false) => return Some(false),
                    Some(true) => {}
                    None => all = false,
                }
            }
            if all {
                Some(true)
            } else {
                None
            }
        }
        Cond::Or(v) => {
            let mut all = true;
            for x in v {
                match conc(x) {
                    Some(true) => return Some(true),
                    Some(false) => {}
                    None => all = false,
                }
            }
            if all {
                Some(false)
            } else {
                None
            }
        }
        _ => None,
    }
}


fn xk(x: &X) -> (bool, u128) {
    match x {
        SymU128::C(c) => (false, *c),
        SymU128::S(i) => (true, *i as u128),
    }
}
/// structural key for hash-consing (commutative operators with ordered operands)
fn cons_key(n: &Node) -> Option<(u8, (bool, u128), (bool, u128))> {
    let ord = |a: &X, b: &X| {
        let (x, y) = (xk(a), xk(b));
        if x <= y {
            (x, y)
        } else {
            (y, x)
        }
    };
    match n {
        Node::Add(a, b) | Node::IAdd(a, b) => {
            let (x, y) = ord(a, b);
            Some((1, x, y))
        }
        Node::Mul(a, b) | Node::IMul(a, b) => {
            let (x, y) = ord(a, b);
            Some((2, x, y))
        }
        Node::Sub(a, b) => Some((3, xk(a), xk(b))),
        Node::ISub(a, b) => Some((4, xk(a), xk(b))),
        Node::Div(a, b) => Some((5, xk(a), xk(b))),
        Node::IDivE(a, b) => Some((6, xk(a), xk(b))),
        Node::Rem(a, b) => Some((7, xk(a), xk(b))),
        Node::IModE(a, b) => Some((8, xk(a), xk(b))),
        Node::INeg(a) => Some((9, xk(a), (false, 0))),
        _ => None,
    }
}
/// an atom as (a, b, mask) with key(a) <= key(b); mask bits: 1 a<b, 2 a=b, 4 a>b
fn atom_rel(c: &Cond) -> Option<((bool, u128), (bool, u128), u8)> {
    let (a, b, m) = match c {
        Cond::Lt(a, b) => (xk(a), xk(b), 1u8),
        Cond::Le(a, b) => (xk(a), xk(b), 3u8),
        Cond::Eq(a, b) => (xk(a), xk(b), 2u8),
        Cond::Not(x) => {
            let (a, b, m) = atom_rel(x)?;
            return Some((a, b, 7 & !m));
        }
        _ => return None,
    };
    if a <= b {
        Some((a, b, m))
    } else {
        let fl = (if m & 1 != 0 { 4 } else { 0 }) | (m & 2) | (if m & 4 != 0 { 1 } else { 0 });
        Some((b, a, fl))
    }
}

fn min4(a: Big, b: Big, c: Big, d: Big) -> Big {
    a.min(b).min(c.min(d))
}
fn max4(a: Big, b: Big, c: Big, d: Big) -> Big {
    a.max(b).max(c.max(d))
}

impl Ctx {
    fn val(&self, v: X) -> Big {
        match v {
            SymU128::C(c) => Big::from_u128(c),
            SymU128::S(i) => self.wit[i as usize].clone(),
        }
    }
    fn ivl(&self, v: X) -> Iv {
        match v {
            SymU128::C(c) => {
                let b = Big::from_u128(c);
                Some((b.clone(), b))
            }
            SymU128::S(i) => self.iv[i as usize].clone(),
        }
    }
    fn konst(&self, v: X) -> Option<Big> {
        match v {
            SymU128::C(c) => Some(Big::from_u128(c)),
            SymU128::S(i) => match &self.nodes[i as usize] {
                Node::IConst(b) => Some(b.clone()),
                _ => None,
            },
        }
    }
    fn weval(&self, n: &Node) -> Big {
        let z = Big::zero();
        match n {
            Node::Var { .. } => unreachable!(),
            Node::Add(a, b) | Node::IAdd(a, b) => self.val(*a).add(&self.val(*b)),
            Node::Sub(a, b) | Node::ISub(a, b) => self.val(*a).sub(&self.val(*b)),
            Node::Mul(a, b) | Node::IMul(a, b) => self.val(*a).mul(&self.val(*b)),
            Node::Div(a, b) | Node::IDivE(a, b) => {
                self.val(*a).divrem_euclid(&self.val(*b)).map(|x| x.0).unwrap_or(z)
            }
            Node::Rem(a, b) | Node::IModE(a, b) => {
                self.val(*a).divrem_euclid(&self.val(*b)).map(|x| x.1).unwrap_or(z)
            }
            Node::IConst(b) => b.clone(),
            Node::INeg(a) => self.val(*a).neg(),
            Node::IIte(c, a, b) => {
                if self.wcond(c) {
                    self.val(*a)
                } else {
                    self.val(*b)
                }
            }
        }
    }
    fn ieval(&self, n: &Node) -> Iv {
        match n {
            Node::Var { lo, hi, .. } => Some((Big::from_u128(*lo), Big::from_u128(*hi))),
            Node::IConst(b) => Some((b.clone(), b.clone())),
            Node::Add(a, b) | Node::IAdd(a, b) => {
                let (al, ah) = self.ivl(*a)?;
                let (bl, bh) = self.ivl(*b)?;
                Some((al.add(&bl), ah.add(&bh)))
            }
            Node::Sub(a, b) => {
                // created only after a >= b was established on the path
                let (al, ah) = self.ivl(*a)?;
                let (bl, bh) = self.ivl(*b)?;
                let lo = al.sub(&bh).max(Big::zero());
                Some((lo, ah.sub(&bl).max(Big::zero())))
            }
            Node::ISub(a, b) => {
                let (al, ah) = self.ivl(*a)?;
                let (bl, bh) = self.ivl(*b)?;
                Some((al.sub(&bh), ah.sub(&bl)))
            }
            Node::Mul(a, b) | Node::IMul(a, b) => {
                let (al, ah) = self.ivl(*a)?;
                let (bl, bh) = self.ivl(*b)?;
                let p = [al.mul(&bl), al.mul(&bh), ah.mul(&bl), ah.mul(&bh)];
                Some((
                    min4(p[0].clone(), p[1].clone(), p[2].clone(), p[3].clone()),
                    max4(p[0].clone(), p[1].clone(), p[2].clone(), p[3].clone()),
                ))
            }
            Node::Div(a, b) | Node::IDivE(a, b) => {
                let (al, ah) = self.ivl(*a)?;
                let (bl, bh) = self.ivl(*b)?;
                let one = Big::one();
                // machine Div is created after b != 0 was established
                let bl = if matches!(n, Node::Div(..)) { bl.max(one.clone()) } else { bl };
                if bl < one {
                    return None;
                }
                let q = |x: &Big, y: &Big| x.divrem_euclid(y).unwrap().0;
                let p = [q(&al, &bl), q(&al, &bh), q(&ah, &bl), q(&ah, &bh)];
                Some((
                    min4(p[0].clone(), p[1].clone(), p[2].clone(), p[3].clone()),
                    max4(p[0].clone(), p[1].clone(), p[2].clone(), p[3].clone()),
                ))
            }
            Node::Rem(a, b) | Node::IModE(a, b) => {
                let (_al, ah) = self.ivl(*a)?;
                let (bl, bh) = self.ivl(*b)?;
                let one = Big::one();
                let bl = if matches!(n, Node::Rem(..)) { bl.max(one.clone()) } else { bl };
                if bl < one {
                    return None;
                }
                let hi = bh.sub(&one);
                let hi = if matches!(n, Node::Rem(..)) { hi.min(ah) } else { hi };
                Some((Big::zero(), hi))
            }
            Node::INeg(a) => {
                let (al, ah) = self.ivl(*a)?;
                Some((ah.neg(), al.neg()))
            }
            Node::IIte(_, a, b) => {
                let (al, ah) = self.ivl(*a)?;
                let (bl, bh) = self.ivl(*b)?;
                Some((al.min(bl), ah.max(bh)))
            }
        }
    }
    fn wcond(&self, c: &Cond) -> bool {
        match c {
            Cond::True => true,
            Cond::False => false,
            Cond::Lt(a, b) => self.val(*a) < self.val(*b),
            Cond::Le(a, b) => self.val(*a) <= self.val(*b),
            Cond::Eq(a, b) => self.val(*a) == self.val(*b),
            Cond::Not(x) => !self.wcond(x),
            Cond::And(v) => v.iter().all(|x| self.wcond(x)),
            Cond::Or(v) => v.iter().any(|x| self.wcond(x)),
        }
    }
    /// decide a condition from interval bounds alone (sound: Some(b) only if b for all values)
    fn icond(&self, c: &Cond) -> Option<bool> {
        match c {
            Cond::True => Some(true),
            Cond::False => Some(false),
            Cond::Lt(a, b) => {
                let (al, ah) = self.ivl(*a)?;
                let (bl, bh) = self.ivl(*b)?;
                if ah < bl {
                    Some(true)
                } else if al >= bh {
                    Some(false)
                } else {
                    None
                }
            }
            Cond::Le(a, b) => {
                let (al, ah) = self.ivl(*a)?;
                let (bl, bh) = self.ivl(*b)?;
                if ah <= bl {
                    Some(true)
                } else if al > bh {
                    Some(false)
                } else {
                    None
                }
            }
            Cond::Eq(a, b) => {
                let (al, ah) = self.ivl(*a)?;
                let (bl, bh) = self.ivl(*b)?;
                if ah < bl || bh < al {
                    Some(false)
                } else if al == ah && bl == bh && al == bl {
                    Some(true)
                } else {
                    None
                }
            }
            Cond::Not(x) => self.icond(x).map(|v| !v),
            Cond::And(v) => {
                let mut all = true;
                for x in v {
                    match self.icond(x) {
                        Some(false) => return Some(false),
                        Some(true) => {}
                        None => all = false,
                    }
                }
                if all {
                    Some(true)
                } else {
                    None
                }
            }
            Cond::Or(v) => {
                let mut all = true;
                for x in v {
                    match self.icond(x) {
                        Some(true) => return Some(true),
                        Some(false) => {}
                        None => all = false,
                    }
                }
                if all {
                    Some(false)
                } else {
                    None
                }
            }
        }
    }

    fn push_node(&mut self, n: Node) -> X {
        let key = cons_key(&n);
        if let Some(k) = &key {
            if let Some(i) = self.cons.get(k) {
                return SymU128::S(*i);
            }
        }
        let x = self.push_node_raw(n);
        if let (Some(k), SymU128::S(i)) = (key, x) {
            self.cons.insert(k, i);
        }
        x
    }

    fn push_node_raw(&mut self, n: Node) -> X {
        let w = match &n {
            Node::Var { name, lo, .. } => {
                let _ = lo;
                Big::from_u128(*self.model.get(name).expect("var model"))
            }
            _ => self.weval(&n),
        };
        let iv = self.ieval(&n);
        let dep = match &n {
            Node::Var { .. } => {
                let k = self.var_ids.len();
                if k < 64 { 1u64 << k } else { u64::MAX }
            }
            Node::IConst(_) => 0,
            Node::INeg(a) => self.dep(*a),
            Node::IIte(c, a, b) => self.cdep(c) | self.dep(*a) | self.dep(*b),
            Node::Add(a, b) | Node::Sub(a, b) | Node::Mul(a, b) | Node::Div(a, b) | Node::Rem(a, b)
            | Node::IAdd(a, b) | Node::ISub(a, b) | Node::IMul(a, b) | Node::IDivE(a, b) | Node::IModE(a, b) => self.dep(*a) | self.dep(*b),
        };
        self.nodes.push(n);
        self.wit.push(w);
        self.iv.push(iv);
        self.deps.push(dep);
        SymU128::S((self.nodes.len() - 1) as u32)
    }

    fn node_def(&self, i: usize) -> String {
        let t = |x: &X| term(*x);
        match &self.nodes[i] {
            Node::Var { lo, hi, .. } => format!(
                "(declare-const t{} Int)(assert (and (<= {} t{}) (<= t{} {})))\n",
                i, lo, i, i, hi
            ),
            Node::Add(a, b) | Node::IAdd(a, b) => {
                format!("(define-fun t{} () Int (+ {} {}))\n", i, t(a), t(b))
            }
            Node::Sub(a, b) | Node::ISub(a, b) => {
                format!("(define-fun t{} () Int (- {} {}))\n", i, t(a), t(b))
            }
            Node::Mul(a, b) | Node::IMul(a, b) => {
                format!("(define-fun t{} () Int (* {} {}))\n", i, t(a), t(b))
            }
            Node::Div(a, b) | Node::IDivE(a, b) => {
                format!("(define-fun t{} () Int (div {} {}))\n", i, t(a), t(b))
            }
            Node::Rem(a, b) | Node::IModE(a, b) => {
                format!("(define-fun t{} () Int (mod {} {}))\n", i, t(a), t(b))
            }
            Node::IConst(b) => format!("(define-fun t{} () Int {})\n", i, big_smt(b)),
            Node::INeg(a) => format!("(define-fun t{} () Int (- {}))\n", i, t(a)),
            Node::IIte(c, a, b) => {
                format!("(define-fun t{} () Int (ite {} {} {}))\n", i, cond_smt(c), t(a), t(b))
            }
        }
    }

    fn flush(&mut self) {
        if self.solver.is_none() {
            let mut s = Solver::new();
            s.send("(set-option :print-success false)");
            self.solver = Some(s);
        }
        let mut out = String::new();
        for i in self.emitted..self.nodes.len() {
            out += &self.node_def(i);
        }
        self.emitted = self.nodes.len();
        for i in self.asserted..self.pc.len() {
            let (c, v) = &self.pc[i];
            if *v {
                out += &format!("(assert {})\n", cond_smt(c));
            } else {
                out += &format!("(assert (not {}))\n", cond_smt(c));
            }
        }
        self.asserted = self.pc.len();
        if !out.is_empty() {
            self.solver.as_mut().unwrap().send(&out);
        }
    }

    /// full standalone SMT-LIB script for the current path plus an extra assertion
    fn script(&self, extra: &str) -> String {
        let mut out = String::from("(set-logic ALL)\n");
        for i in 0..self.nodes.len() {
            out += &self.node_def(i);
        }
        for (c, v) in &self.pc {
            if *v {
                out += &format!("(assert {})\n", cond_smt(c));
            } else {
                out += &format!("(assert (not {}))\n", cond_smt(c));
            }
        }
        out += &format!("(assert {})\n(check-sat)\n", extra);
        out
    }

    /// is pc ∧ extra satisfiable?  leaves a (push) frame open; caller must call pop()
    fn check(&mut self, extra: &str, timeout_ms: u64) -> SatRes {
        self.flush();
        self.queries += 1;
        let q = format!("(set-option :timeout {})\n(push 1)\n(assert {})\n(check-sat)", timeout_ms, extra);
        let t0 = Instant::now();
        let r = {
            let s = self.solver.as_mut().unwrap();
            let lines = s.ask(&q);
            if lines.iter().any(|l| l.starts_with("(error")) {
                s.errors += 1;
                eprintln!("symrt: solver error: {:?}", lines);
                "error".to_string()
            } else {
                lines.iter().rev().find(|l| matches!(l.as_str(), "sat" | "unsat" | "unknown" | "timeout")).cloned().unwrap_or_else(|| "unknown".to_string())
            }
        };
        self.solver_ms += t0.elapsed().as_millis();
        if let Ok(dir) = std::env::var("SYMX_DUMP") {
            if t0.elapsed().as_millis() > 350 {
                let _ = std::fs::create_dir_all(&dir);
                let _ = std::fs::write(format!("{}/q{}-p{}-{}.smt2", dir, self.queries, self.path_id, r), self.script(extra));
            }
        }
        if std::env::var("SYMX_TRACE").is_ok() {
            let e: String = extra.chars().take(160).collect();
            eprintln!("Q#{} path={} pc={} nodes={} {}ms {} :: {}", self.queries, self.path_id, self.pc.len(), self.nodes.len(), t0.elapsed().as_millis(), r, e);
        }
        match r.as_str() {
            "sat" => SatRes::Sat,
            "unsat" => SatRes::Unsat,
            "unknown" | "timeout" => SatRes::Unknown,
            other => {
                if other.starts_with("(error") {
                    self.solver.as_mut().unwrap().errors += 1;
                    eprintln!("symrt: solver error: {}", other);
                }
                SatRes::Unknown
            }
        }
    }
    fn pop(&mut self) {
        self.solver.as_mut().unwrap().send("(pop 1)");
    }
    fn model_vals(&mut self) -> BTreeMap<String, u128> {
        let mut out = BTreeMap::new();
        if self.var_ids.is_empty() {
            return out;
        }
        let names: Vec<String> = self.var_ids.iter().map(|i| format!("t{}", i)).collect();
        let s = self.solver.as_mut().unwrap();
        let acc = s.ask(&format!("(get-value ({}))", names.join(" "))).join(" ");
        // parse "(tN value)" pairs
        let toks: Vec<&str> = acc
            .split(|c: char| c == '(' || c == ')' || c.is_whitespace())
            .filter(|t| !t.is_empty())
            .collect();
        let mut i = 0;
        while i + 1 < toks.len() {
            if let Some(idx) = toks[i].strip_prefix('t').and_then(|n| n.parse::<u32>().ok()) {
                if let Ok(v) = toks[i + 1].parse::<u128>() {
                    if let Node::Var { name, .. } = &self.nodes[idx as usize] {
                        out.insert(name.clone(), v);
                    }
                }
                i += 2;
            } else {
                i += 1;
            }
        }
        out
    }
    fn assignment(&self) -> BTreeMap<String, u128> {
        let mut out = BTreeMap::new();
        for i in &self.var_ids {
            if let Node::Var { name, .. } = &self.nodes[*i as usize] {
                out.insert(name.clone(), self.wit[*i as usize].to_u128().unwrap());
            }
        }
        out
    }
    /// model = solver values for existing vars, falling back to the current witness
    fn merged_model(&mut self) -> BTreeMap<String, u128> {
        let mut m = self.assignment();
        for (k, v) in self.model_vals() {
            m.insert(k, v);
        }
        m
    }
}


// ------------------------------------------------------------------------------------------
// model search by concrete evaluation: find values that keep the path condition and flip a
// condition, without the solver (a found assignment is checked by evaluation, hence a genuine
// model; failure to find one says nothing and the solver is asked)
// ------------------------------------------------------------------------------------------
impl Ctx {
    fn dep(&self, x: X) -> u64 {
        match x {
            SymU128::C(_) => 0,
            SymU128::S(i) => self.deps[i as usize],
        }
    }
    fn cdep(&self, c: &Cond) -> u64 {
        match c {
            Cond::True | Cond::False => 0,
            Cond::Lt(a, b) | Cond::Le(a, b) | Cond::Eq(a, b) => self.dep(*a) | self.dep(*b),
            Cond::Not(x) => self.cdep(x),
            Cond::And(v) | Cond::Or(v) => v.iter().fold(0, |m, x| m | self.cdep(x)),
        }
    }
    /// re-evaluate all nodes with variable number `k` set to `val` (others at the witness)
    fn eval_with(&self, k: usize, val: &Big, out: &mut Vec<Big>) {
        let bit = if k < 64 { 1u64 << k } else { u64::MAX };
        out.clear();
        out.reserve(self.nodes.len());
        let vid = self.var_ids[k] as usize;
        for i in 0..self.nodes.len() {
            if self.deps[i] & bit == 0 {
                out.push(self.wit[i].clone());
                continue;
            }
            if i == vid {
                out.push(val.clone());
                continue;
            }
            let v = |x: &X| -> Big {
                match x {
                    SymU128::C(c) => Big::from_u128(*c),
                    SymU128::S(j) => out[*j as usize].clone(),
                }
            };
            let z = Big::zero();
            let r = match &self.nodes[i] {
                Node::Var { .. } => self.wit[i].clone(),
                Node::Add(a, b) | Node::IAdd(a, b) => v(a).add(&v(b)),
                Node::Sub(a, b) | Node::ISub(a, b) => v(a).sub(&v(b)),
                Node::Mul(a, b) | Node::IMul(a, b) => v(a).mul(&v(b)),
                Node::Div(a, b) | Node::IDivE(a, b) => v(a).divrem_euclid(&v(b)).map(|x| x.0).unwrap_or(z),
                Node::Rem(a, b) | Node::IModE(a, b) => v(a).divrem_euclid(&v(b)).map(|x| x.1).unwrap_or(z),
                Node::IConst(b) => b.clone(),
                Node::INeg(a) => v(a).neg(),
                Node::IIte(c, a, b) => {
                    if Self::cond_on(c, out) {
                        v(a)
                    } else {
                        v(b)
                    }
                }
            };
            out.push(r);
        }
    }
    fn cond_on(c: &Cond, vals: &[Big]) -> bool {
        let v = |x: &X| -> Big {
            match x {
                SymU128::C(c) => Big::from_u128(*c),
                SymU128::S(j) => vals[*j as usize].clone(),
            }
        };
        match c {
            Cond::True => true,
            Cond::False => false,
            Cond::Lt(a, b) => v(a) < v(b),
            Cond::Le(a, b) => v(a) <= v(b),
            Cond::Eq(a, b) => v(a) == v(b),
            Cond::Not(x) => !Self::cond_on(x, vals),
            Cond::And(l) => l.iter().all(|x| Self::cond_on(x, vals)),
            Cond::Or(l) => l.iter().any(|x| Self::cond_on(x, vals)),
        }
    }
    fn pc_holds(&self, bit: u64, vals: &[Big]) -> bool {
        for (c, want) in &self.pc {
            if self.cdep(c) & bit == 0 {
                continue;
            }
            if Self::cond_on(c, vals) != *want {
                return false;
            }
        }
        true
    }
    /// search for an assignment satisfying the path condition under which `cond` evaluates to
    /// `want`; single-variable moves from the witness with bisection toward the witness
    fn search_model(&mut self, cond: &Cond, want: bool) -> Option<BTreeMap<String, u128>> {
        if std::env::var("SYMX_NO_SEARCH").is_ok() {
            return None;
        }
        let cd = self.cdep(cond);
        let mut vals: Vec<Big> = vec![];
        let nv = self.var_ids.len().min(64);
        let mut evals = 0u64;
        for k in 0..nv {
            let bit = 1u64 << k;
            if cd & bit == 0 {
                continue;
            }
            let vid = self.var_ids[k] as usize;
            let (lo, hi) = match &self.nodes[vid] {
                Node::Var { lo, hi, .. } => (*lo, *hi),
                _ => continue,
            };
            let w = self.wit[vid].to_u128().unwrap();
            let mut cands: Vec<u128> = vec![lo, hi, w.saturating_add(1), w.saturating_sub(1)];
            for f in [2u128, 3, 10, 100, 1000, 1_000_000, 1_000_000_000_000] {
                cands.push(w.saturating_mul(f));
                cands.push(w / f);
                cands.push(w.saturating_add(w / f));
                cands.push(w - w / f);
            }
            for sh in [8u32, 16, 32, 48, 64, 80, 96, 112] {
                cands.push(1u128 << sh);
                cands.push(w.saturating_add(1u128 << sh));
            }
            cands.push(0);
            cands.push(1);
            let mut seen = std::collections::BTreeSet::new();
            for c0 in cands {
                let c0 = c0.clamp(lo, hi);
                if c0 == w || !seen.insert(c0) {
                    continue;
                }
                self.eval_with(k, &Big::from_u128(c0), &mut vals);
                evals += 1;
                if Self::cond_on(cond, &vals) != want {
                    continue;
                }
                if self.pc_holds(bit, &vals) {
                    self.search_evals += evals;
                    self.search_hits += 1;
                    return Some(self.assignment_with(k, c0));
                }
                // cond flipped but pc broken: bisect toward the witness for the nearest flip
                let (mut good, mut bad) = (c0, w); // good: cond == want; bad: cond != want
                let mut steps = 0;
                while good.abs_diff(bad) > 1 && steps < 130 {
                    let mid = if good > bad { bad + (good - bad) / 2 } else { good + (bad - good) / 2 };
                    self.eval_with(k, &Big::from_u128(mid), &mut vals);
                    evals += 1;
                    if Self::cond_on(cond, &vals) == want {
                        good = mid;
                    } else {
                        bad = mid;
                    }
                    steps += 1;
                }
                self.eval_with(k, &Big::from_u128(good), &mut vals);
                evals += 1;
                if Self::cond_on(cond, &vals) == want && self.pc_holds(bit, &vals) {
                    self.search_evals += evals;
                    self.search_hits += 1;
                    return Some(self.assignment_with(k, good));
                }
                if evals > 1500 {
                    self.search_evals += evals;
                    return None;
                }
            }
        }
        self.search_evals += evals;
        None
    }
    fn assignment_with(&self, k: usize, val: u128) -> BTreeMap<String, u128> {
        let mut m = self.assignment();
        if let Node::Var { name, .. } = &self.nodes[self.var_ids[k] as usize] {
            m.insert(name.clone(), val);
        }
        m
    }
}

// external solver on a standalone script (portfolio / cross-check)
fn run_external(bin: &str, args: &[&str], script: &str, timeout_s: u64) -> SatRes {
    let dir = std::env::temp_dir();
    let path = dir.join(format!("symx-{}-{}.smt2", std::process::id(), rand_id()));
    if std::fs::write(&path, script).is_err() {
        return SatRes::Unknown;
    }
    let out = Command::new("timeout")
        .arg(format!("{}", timeout_s))
        .arg(bin)
        .args(args)
        .arg(&path)
        .output();
    let _ = std::fs::remove_file(&path);
    match out {
        Ok(o) => {
            let s = String::from_utf8_lossy(&o.stdout);
            if s.contains("(error") {
                return SatRes::Unknown;
            }
            match s.lines().next().map(|l| l.trim()) {
                Some("sat") => SatRes::Sat,
                Some("unsat") => SatRes::Unsat,
                _ => SatRes::Unknown,
            }
        }
        Err(_) => SatRes::Unknown,
    }
}

fn rand_id() -> u128 {
    std::time::SystemTime::now().duration_since(std::time::UNIX_EPOCH).map(|d| d.as_nanos()).unwrap_or(0)
}

// ------------------------------------------------------------------------------------------
// public API
// ------------------------------------------------------------------------------------------
pub fn mode() -> Mode {
    CTX.with(|c| c.borrow().mode)
}
pub fn set_full(b: bool) {
    CTX.with(|c| c.borrow_mut().full = b)
}
pub fn is_full() -> bool {
    CTX.with(|c| c.borrow().full)
}

/// fresh symbolic variable in [lo, hi] with a seed (the value used on the first path and in
/// concrete mode when no assignment is given)
pub fn fresh(name: &str, lo: u128, hi: u128, seed: u128) -> X {
    assert!(lo <= hi && hi <= VAR_MAX, "bad var range for {}", name);
    CTX.with(|c| {
        let mut c = c.borrow_mut();
        let seed = seed.clamp(lo, hi);
        c.vars_seen.insert(name.to_string(), (lo, hi));
        let v = *c.model.entry(name.to_string()).or_insert(seed);
        if c.mode == Mode::Concrete {
            return SymU128::C(v);
        }
        if v < lo || v > hi {
            // model value outside the declared range: cannot happen for solver models
            std::panic::panic_any(Abort(format!("value of {} outside declared range", name)));
        }
        for i in &c.var_ids {
            if let Node::Var { name: n, .. } = &c.nodes[*i as usize] {
                if n == name {
                    std::panic::panic_any(Abort(format!("duplicate variable {}", name)));
                }
            }
        }
        let x = c.push_node(Node::Var { name: name.to_string(), lo, hi });
        if let SymU128::S(i) = x {
            c.var_ids.push(i);
        }
        x
    })
}

fn mk(n: Node) -> X {
    CTX.with(|c| c.borrow_mut().push_node(n))
}

pub fn witness_of(x: X) -> Big {
    CTX.with(|c| c.borrow().val(x))
}

pub fn log_event(s: String) {
    CTX.with(|c| c.borrow_mut().events.push(s))
}
pub fn log_val(label: &str, x: X) {
    CTX.with(|c| {
        let mut c = c.borrow_mut();
        let v = c.val(x);
        c.events.push(format!("{}={}", label, v));
    })
}

/// Decide a (possibly symbolic) condition on the current path.
pub fn decide(cond: Cond) -> bool {
    if let Some(v) = conc(&cond) {
        return v;
    }
    CTX.with(|c| {
        let mut c = c.borrow_mut();
        if !c.active || c.mode == Mode::Concrete {
            panic!("symbolic decision outside explore(): {:?}", cond);
        }
        if let Some(b) = c.icond(&cond) {
            c.interval_decided += 1;
            return b;
        }
        // relations already fixed by earlier decisions on the same pair of terms
        let ar = atom_rel(&cond);
        if let Some((a, b, set)) = ar {
            if a == b {
                return set & 2 != 0;
            }
            let m = *c.rel.get(&(a, b)).unwrap_or(&7);
            if m & set == 0 {
                c.rel_decided += 1;
                return false;
            }
            if m & !set & 7 == 0 {
                c.rel_decided += 1;
                return true;
            }
        }
        let wv = c.wcond(&cond);
        if let Some((a, b, set)) = ar {
            let m = *c.rel.get(&(a, b)).unwrap_or(&7);
            let nm = if wv { m & set } else { m & !set & 7 };
            c.rel.insert((a, b), nm);
        }
        let pos = c.trace.len();
        c.decisions += 1;
        if pos < c.prefix.len() {
            if c.prefix[pos] != wv {
                let msg = format!("replay divergence at decision {}: {}", pos, cond_smt(&cond));
                drop(c);
                std::panic::panic_any(Diverged(msg));
            }
        } else if c.full {
            if let Some(m) = c.search_model(&cond, !wv) {
                let mut alt = c.trace.clone();
                alt.push(!wv);
                c.pending.push((alt, m));
                c.trace.push(wv);
                c.pc.push((cond, wv));
                return wv;
            }
            let smt = cond_smt(&cond);
            let other = if wv { format!("(not {})", smt) } else { smt };
            let t = c.feas_timeout_ms;
            let mut r = c.check(&other, t);
            if r == SatRes::Unknown {
                c.pop();
                let t = c.feas_retry_ms;
                r = c.check(&other, t);
            }
            match r {
                SatRes::Sat => {
                    let m = c.merged_model();
                    let mut alt = c.trace.clone();
                    alt.push(!wv);
                    c.pending.push((alt, m));
                }
                SatRes::Unsat => {}
                SatRes::Unknown => {
                    c.unknown_feasibility += 1;
                }
            }
            c.pop();
        }
        c.trace.push(wv);
        c.pc.push((cond, wv));
        wv
    })
}

/// Constrain the path. If the witness violates `cond`, the path is restarted with a model that
/// satisfies it (or dropped when none exists).
pub fn assume(cond: Cond) {
    if let Some(v) = conc(&cond) {
        if !v {
            std::panic::panic_any(InfeasiblePath);
        }
        return;
    }
    let ok = CTX.with(|c| {
        let mut c = c.borrow_mut();
        if let Some(b) = c.icond(&cond) {
            return b;
        }
        let wv = c.wcond(&cond);
        let pos = c.trace.len();
        if pos < c.prefix.len() {
            // recorded as a decision that was taken `true`
            if !wv {
                drop(c);
                std::panic::panic_any(Diverged("assume replay divergence".into()));
            }
        } else if !wv {
            if let Some(m) = c.search_model(&cond, true) {
                let mut alt = c.trace.clone();
                alt.push(true);
                c.pending.push((alt, m));
                return false;
            }
            let smt = cond_smt(&cond);
            let t = c.feas_retry_ms;
            let r = c.check(&smt, t);
            if r == SatRes::Sat {
                let m = c.merged_model();
                let mut alt = c.trace.clone();
                alt.push(true);
                c.pending.push((alt, m));
            } else if r == SatRes::Unknown {
                c.unknown_feasibility += 1;
            }
            c.pop();
            return false;
        }
        c.trace.push(true);
        c.pc.push((cond, true));
        true
    });
    if !ok {
        std::panic::panic_any(InfeasiblePath);
    }
}

/// The deciding step: prove `cond` for all values satisfying the path condition.
pub fn prove(label: &str, cond: Cond) -> bool {
    prove_d(label, cond, String::new())
}

pub fn prove_d(label: &str, cond: Cond, detail: String) -> bool {
    let t0 = Instant::now();
    if let Some(v) = conc(&cond) {
        CTX.with(|c| {
            let mut c = c.borrow_mut();
            let a = if c.mode == Mode::Concrete { c.model.clone() } else { c.assignment() };
            let pid = c.path_id;
            c.obligations.push(ObRecord {
                label: label.to_string(),
                verdict: if v { Verdict::ConcreteTrue } else { Verdict::ConcreteFalse },
                assignment: a,
                ms: 0,
                path: pid,
                detail,
            });
        });
        return v;
    }
    CTX.with(|c| {
        let mut c = c.borrow_mut();
        let wv = c.wcond(&cond);
        let (verdict, assignment) = if !wv {
            // the witness satisfies the path condition and falsifies the claim
            (Verdict::Refuted, c.assignment())
        } else if c.icond(&cond) == Some(true) {
            (Verdict::Proved, c.assignment())
        } else {
            let neg = format!("(not {})", cond_smt(&cond));
            let t = c.prove_timeout_ms;
            let mut r = c.check(&neg, t);
            if r == SatRes::Unknown {
                c.pop();
                let t = c.prove_retry_ms;
                r = c.check(&neg, t);
            }
            let res = match r {
                SatRes::Unsat => (Verdict::Proved, c.assignment()),
                SatRes::Sat => {
                    let m = c.merged_model();
                    (Verdict::Refuted, m)
                }
                SatRes::Unknown => (Verdict::Unknown, c.assignment()),
            };
            c.pop();
            if res.0 == Verdict::Unknown && std::env::var("SYMX_NO_PORTFOLIO").is_err() {
                // portfolio: cvc5, then the system z3, on a standalone script
                let script = c.script(&neg);
                let secs = (c.prove_retry_ms / 1000).max(5);
                let mut v = run_external("cvc5", &["--lang", "smt2", "--nl-ext-tplanes"], &script, secs);
                if v == SatRes::Unknown {
                    v = run_external("/usr/bin/z3", &["-smt2"], &script, secs);
                }
                c.queries += 1;
                match v {
                    SatRes::Unsat => (Verdict::Proved, res.1),
                    // a `sat` from the portfolio comes without a model we can parse cheaply;
                    // keep it undischarged (inconclusive), never a violation
                    _ => res,
                }
            } else {
                res
            }
        };
        let ok = verdict == Verdict::Proved;
        let pid = c.path_id;
        c.obligations.push(ObRecord {
            label: label.to_string(),
            verdict,
            assignment,
            ms: t0.elapsed().as_millis(),
            path: pid,
            detail,
        });
        ok
    })
}

/// Is `cond` satisfiable together with the path condition? (used for guard reachability /
/// vacuity witnesses; no forking)
pub fn possible(cond: Cond) -> Option<bool> {
    if let Some(v) = conc(&cond) {
        return Some(v);
    }
    CTX.with(|c| {
        let mut c = c.borrow_mut();
        if c.wcond(&cond) {
            return Some(true);
        }
        if let Some(b) = c.icond(&cond) {
            return Some(b);
        }
        let smt = cond_smt(&cond);
        let t = c.feas_retry_ms;
        let r = c.check(&smt, t);
        c.pop();
        match r {
            SatRes::Sat => Some(true),
            SatRes::Unsat => Some(false),
            SatRes::Unknown => None,
        }
    })
}

/// Run `f` catching panics. Control payloads of the runtime are re-raised; any other panic is
/// returned as Err(message) — a panicking contract call is a failed (reverted) transaction.
pub fn catch<T, F: FnOnce() -> T>(f: F) -> Result<T, String> {
    match std::panic::catch_unwind(std::panic::AssertUnwindSafe(f)) {
        Ok(v) => Ok(v),
        Err(e) => {
            if e.is::<InfeasiblePath>() || e.is::<Diverged>() || e.is::<Abort>() {
                std::panic::resume_unwind(e);
            }
            let msg = e
                .downcast_ref::<String>()
                .cloned()
                .or_else(|| e.downcast_ref::<&str>().map(|s| s.to_string()))
                .unwrap_or_else(|| "panic".to_string());
            if msg.contains("concretization of symbolic") || msg.contains("handle zone") {
                std::panic::panic_any(Abort(msg));
            }
            Err(format!("panic: {}", msg))
        }
    }
}

fn restarts_enabled() -> bool {
    std::env::var("SYMX_RESTARTS").map(|v| v != "0").unwrap_or(true)
}

pub fn explore<F: Fn()>(f: F, opts: Opts) -> Report {
    let prev_hook = std::panic::take_hook();
    if std::env::var("SYMX_PANIC_TRACE").is_err() {
        std::panic::set_hook(Box::new(|_| {}));
    }
    let mut rep = Report::default();
    let t_start = Instant::now();
    // (decision prefix, model, belongs to a boundary restart)
    let mut work: Vec<(Vec<bool>, BTreeMap<String, u128>, bool)> = vec![(vec![], opts.assignment.clone(), false)];
    let restart_budget = std::env::var("SYMX_RESTART_SECS").ok().and_then(|v| v.parse::<u64>().ok()).unwrap_or(60);
    let mut restart_started: Option<Instant> = None;
    CTX.with(|c| {
        let mut c = c.borrow_mut();
        c.mode = opts.mode;
        c.feas_timeout_ms = opts.feas_timeout_ms;
        c.feas_retry_ms = opts.feas_retry_ms;
        c.prove_timeout_ms = opts.prove_timeout_ms;
        c.prove_retry_ms = opts.prove_retry_ms;
        c.queries = 0;
        c.solver_ms = 0;
        c.unknown_feasibility = 0;
        c.interval_decided = 0;
        c.search_hits = 0;
        c.rel_decided = 0;
        c.search_evals = 0;
        c.decisions = 0;
        c.vars_seen.clear();
        c.obligations.clear();
    });
    while let Some((prefix, model, in_restart)) = work.pop() {
        if in_restart {
            // restarts are an extra on top of the exploration of the seeded witness: they get a time
            // budget of their own and never count against exhaustiveness
            let t0 = *restart_started.get_or_insert_with(Instant::now);
            if t0.elapsed().as_secs() >= restart_budget {
                rep.restarts_skipped += 1;
                continue;
            }
        }
        if rep.paths >= opts.max_paths {
            rep.path_cap_hit = true;
            break;
        }
        if t_start.elapsed().as_secs() >= opts.max_secs {
            rep.time_cap_hit = true;
            break;
        }
        CTX.with(|c| {
            let mut c = c.borrow_mut();
            c.nodes.clear();
            c.wit.clear();
            c.iv.clear();
            c.deps.clear();
            c.cons.clear();
            c.rel.clear();
            c.var_ids.clear();
            c.model = model;
            c.full = true;
            c.pc.clear();
            c.asserted = 0;
            c.emitted = 0;
            c.trace.clear();
            c.pending.clear();
            c.events.clear();
            c.prefix = prefix;
            c.active = true;
            c.path_id = rep.paths;
            if let Some(s) = c.solver.as_mut() {
                s.send("(reset)\n(set-option :print-success false)");
            }
        });
        let r = std::panic::catch_unwind(std::panic::AssertUnwindSafe(|| f()));
        rep.paths += 1;
        let mut ended = "ok".to_string();
        if let Err(e) = r {
            if e.is::<InfeasiblePath>() {
                rep.infeasible += 1;
                ended = "infeasible".into();
            } else if let Some(d) = e.downcast_ref::<Diverged>() {
                rep.diverged += 1;
                rep.aborted.push(format!("diverged: {}", d.0));
                ended = "diverged".into();
            } else if let Some(a) = e.downcast_ref::<Abort>() {
                rep.aborted.push(format!("abort: {}", a.0));
                ended = "abort".into();
            } else {
                let msg = e
                    .downcast_ref::<String>()
                    .cloned()
                    .or_else(|| e.downcast_ref::<&str>().map(|s| s.to_string()))
                    .unwrap_or_default();
                rep.aborted.push(format!("harness panic: {}", msg));
                ended = "panic".into();
            }
        }
        CTX.with(|c| {
            let mut c = c.borrow_mut();
            c.active = false;
            // Boundary restarts: after the first (seeded) path, every ratio-like variable (range
            // within [0, 10^9] starting at 0 or 1: fee, margin and liquidation ratios, price-band
            // limits, ...) also starts one exploration from each end of its range, the other
            // variables at their seeds. A concolically executed prefix records the decisions of its
            // witness ("this fee is non-zero"); only a witness sitting in the zero / 100 % region
            // opens that region to the forks of the transaction under test.
            if rep.paths == 1 && c.mode == Mode::Sym && restarts_enabled() {
                let first = if c.mode == Mode::Concrete { c.model.clone() } else { c.assignment() };
                let mut extra = vec![];
                for (name, (lo, hi)) in c.vars_seen.iter() {
                    if *hi <= 1_000_000_000 && *lo <= 1 && hi > lo {
                        for v in [*lo, *hi] {
                            if first.get(name) != Some(&v) {
                                let mut m = opts.assignment.clone();
                                m.insert(name.clone(), v);
                                extra.push((vec![], m, true));
                            }
                        }
                    }
                }
                // (pushed first: the forks of the seeded path are explored before the restarts)
                for e in extra.into_iter().rev() {
                    work.insert(0, e);
                }
            }
            let pend: Vec<_> = c.pending.drain(..).collect();
            for (pf, m) in pend {
                work.push((pf, m, in_restart));
            }
            if rep.path_records.len() < opts.keep_paths {
                let a = if c.mode == Mode::Concrete { c.model.clone() } else { c.assignment() };
                rep.path_records.push(PathRecord {
                    id: rep.paths - 1,
                    assignment: a,
                    events: c.events.clone(),
                    decisions: c.trace.clone(),
                    ended,
                });
            }
        });
    }
    CTX.with(|c| {
        let mut c = c.borrow_mut();
        rep.queries = c.queries;
        rep.solver_ms = c.solver_ms;
        rep.unknown_feasibility = c.unknown_feasibility;
        rep.interval_decided = c.interval_decided;
        rep.search_hits = c.search_hits;
        rep.rel_decided = c.rel_decided;
        rep.search_evals = c.search_evals;
        rep.decisions = c.decisions;
        rep.obligations = c.obligations.drain(..).collect();
        rep.vars = c.vars_seen.clone();
        rep.solver_errors = c.solver.as_ref().map(|s| s.errors).unwrap_or(0);
        c.solver = None;
    });
    std::panic::set_hook(prev_hook);
    rep
}

// ------------------------------------------------------------------------------------------
// machine arithmetic on SymU128 (exact checked semantics of u128)
// ------------------------------------------------------------------------------------------
impl SymU128 {
    pub const fn conc(v: u128) -> Self {
        SymU128::C(v)
    }
    pub const fn as_conc(&self) -> u128 {
        match self {
            SymU128::C(v) => *v,
            SymU128::S(_) => panic!("concretization of symbolic Uint128"),
        }
    }
    pub const fn is_sym(&self) -> bool {
        matches!(self, SymU128::S(_))
    }
    pub const fn from_u128(v: u128) -> Self {
        if v >= ZONE_BASE && v < u128::MAX {
            SymU128::S((v - ZONE_BASE) as u32)
        } else {
            SymU128::C(v)
        }
    }
    pub fn checked_add(self, o: Self) -> Option<Self> {
        if let (SymU128::C(a), SymU128::C(b)) = (self, o) {
            return a.checked_add(b).map(SymU128::C);
        }
        if let SymU128::C(0) = self {
            return Some(o);
        }
        if let SymU128::C(0) = o {
            return Some(self);
        }
        let t = mk(Node::Add(self, o));
        if decide(Cond::Lt(SymU128::C(u128::MAX), t)) {
            None
        } else {
            Some(t)
        }
    }
    pub fn checked_sub(self, o: Self) -> Option<Self> {
        if let (SymU128::C(a), SymU128::C(b)) = (self, o) {
            return a.checked_sub(b).map(SymU128::C);
        }
        if let SymU128::C(0) = o {
            return Some(self);
        }
        if decide(Cond::Lt(self, o)) {
            None
        } else {
            Some(mk(Node::Sub(self, o)))
        }
    }
    pub fn checked_mul(self, o: Self) -> Option<Self> {
        if let (SymU128::C(a), SymU128::C(b)) = (self, o) {
            return a.checked_mul(b).map(SymU128::C);
        }
        if let SymU128::C(0) = self {
            return Some(SymU128::C(0));
        }
        if let SymU128::C(0) = o {
            return Some(SymU128::C(0));
        }
        if let SymU128::C(1) = self {
            return Some(o);
        }
        if let SymU128::C(1) = o {
            return Some(self);
        }
        let t = mk(Node::Mul(self, o));
        if decide(Cond::Lt(SymU128::C(u128::MAX), t)) {
            None
        } else {
            Some(t)
        }
    }
    pub fn checked_div(self, o: Self) -> Option<Self> {
        if let (SymU128::C(a), SymU128::C(b)) = (self, o) {
            return a.checked_div(b).map(SymU128::C);
        }
        if decide(Cond::Eq(o, SymU128::C(0))) {
            return None;
        }
        if let SymU128::C(1) = o {
            return Some(self);
        }
        if let SymU128::C(0) = self {
            return Some(SymU128::C(0));
        }
        Some(mk(Node::Div(self, o)))
    }
    pub fn checked_rem(self, o: Self) -> Option<Self> {
        if let (SymU128::C(a), SymU128::C(b)) = (self, o) {
            return a.checked_rem(b).map(SymU128::C);
        }
        if decide(Cond::Eq(o, SymU128::C(0))) {
            return None;
        }
        if let SymU128::C(1) = o {
            return Some(SymU128::C(0));
        }
        if let SymU128::C(0) = self {
            return Some(SymU128::C(0));
        }
        Some(mk(Node::Rem(self, o)))
    }
    pub fn is_zero(&self) -> bool {
        decide(Cond::Eq(*self, SymU128::C(0)))
    }
}

impl Default for SymU128 {
    fn default() -> Self {
        SymU128::C(0)
    }
}
impl PartialEq for SymU128 {
    fn eq(&self, o: &Self) -> bool {
        if let (SymU128::S(a), SymU128::S(b)) = (self, o) {
            if a == b {
                return true;
            }
        }
        decide(Cond::Eq(*self, *o))
    }
}
impl Eq for SymU128 {}
impl PartialOrd for SymU128 {
    fn partial_cmp(&self, o: &Self) -> Option<std::cmp::Ordering> {
        Some(self.cmp(o))
    }
    fn lt(&self, o: &Self) -> bool {
        decide(Cond::Lt(*self, *o))
    }
    fn le(&self, o: &Self) -> bool {
        decide(Cond::Le(*self, *o))
    }
    fn gt(&self, o: &Self) -> bool {
        decide(Cond::Lt(*o, *self))
    }
    fn ge(&self, o: &Self) -> bool {
        decide(Cond::Le(*o, *self))
    }
}
impl Ord for SymU128 {
    fn cmp(&self, o: &Self) -> std::cmp::Ordering {
        if decide(Cond::Lt(*self, *o)) {
            std::cmp::Ordering::Less
        } else if decide(Cond::Eq(*self, *o)) {
            std::cmp::Ordering::Equal
        } else {
            std::cmp::Ordering::Greater
        }
    }
}
impl std::fmt::Display for SymU128 {
    fn fmt(&self, f: &mut std::fmt::Formatter) -> std::fmt::Result {
        match self {
            SymU128::C(v) => {
                if *v >= ZONE_BASE && *v < u128::MAX {
                    panic!("concrete value in handle zone");
                }
                v.fmt(f)
            }
            SymU128::S(i) => (ZONE_BASE + *i as u128).fmt(f),
        }
    }
}
impl std::str::FromStr for SymU128 {
    type Err = std::num::ParseIntError;
    fn from_str(s: &str) -> Result<Self, Self::Err> {
        s.parse::<u128>().map(SymU128::from_u128)
    }
}

// ------------------------------------------------------------------------------------------
// specification-side integers (unbounded)
// ------------------------------------------------------------------------------------------
#[derive(Clone, Copy, Debug)]
pub struct SInt(pub X);

fn kz(x: X) -> Option<Big> {
    CTX.with(|c| c.borrow().konst(x))
}
fn from_big(b: Big) -> X {
    match b.to_u128() {
        Some(v) if v < ZONE_BASE => SymU128::C(v),
        _ => mk(Node::IConst(b)),
    }
}

impl SInt {
    pub fn u(x: X) -> SInt {
        SInt(x)
    }
    pub fn c(v: u128) -> SInt {
        SInt(from_big(Big::from_u128(v)))
    }
    pub fn i(v: i128) -> SInt {
        SInt(from_big(Big::from_i128(v)))
    }
    pub fn big(b: Big) -> SInt {
        SInt(from_big(b))
    }
    pub fn zero() -> SInt {
        SInt(SymU128::C(0))
    }
    pub fn konst(&self) -> Option<Big> {
        kz(self.0)
    }
    pub fn witness(&self) -> Big {
        witness_of(self.0)
    }
    fn bin(self, o: SInt, f: fn(&Big, &Big) -> Option<Big>, n: fn(X, X) -> Node) -> SInt {
        if let (Some(a), Some(b)) = (kz(self.0), kz(o.0)) {
            if let Some(r) = f(&a, &b) {
                return SInt(from_big(r));
            }
        }
        SInt(mk(n(self.0, o.0)))
    }
    pub fn add(self, o: SInt) -> SInt {
        self.bin(o, |a, b| Some(a.add(b)), Node::IAdd)
    }
    pub fn sub(self, o: SInt) -> SInt {
        self.bin(o, |a, b| Some(a.sub(b)), Node::ISub)
    }
    pub fn mul(self, o: SInt) -> SInt {
        self.bin(o, |a, b| Some(a.mul(b)), Node::IMul)
    }
    /// Euclidean division (= floor for a positive divisor); divisor must be non-zero
    pub fn div_e(self, o: SInt) -> SInt {
        self.bin(o, |a, b| a.divrem_euclid(b).map(|x| x.0), Node::IDivE)
    }
    pub fn mod_e(self, o: SInt) -> SInt {
        self.bin(o, |a, b| a.divrem_euclid(b).map(|x| x.1), Node::IModE)
    }
    pub fn neg(self) -> SInt {
        if let Some(a) = kz(self.0) {
            return SInt(from_big(a.neg()));
        }
        SInt(mk(Node::INeg(self.0)))
    }
    pub fn ite(c: Cond, a: SInt, b: SInt) -> SInt {
        if let Some(v) = conc(&c) {
            return if v { a } else { b };
        }
        if mode() == Mode::Concrete {
            unreachable!()
        }
        SInt(mk(Node::IIte(Box::new(c), a.0, b.0)))
    }
    pub fn abs(self) -> SInt {
        SInt::ite(self.lt(SInt::zero()), self.neg(), self)
    }
    /// division truncating toward zero, divisor > 0
    pub fn div_t(self, o: SInt) -> SInt {
        SInt::ite(self.lt(SInt::zero()), self.neg().div_e(o).neg(), self.div_e(o))
    }
    pub fn min(self, o: SInt) -> SInt {
        SInt::ite(self.le(o), self, o)
    }
    pub fn max(self, o: SInt) -> SInt {
        SInt::ite(self.le(o), o, self)
    }
    pub fn lt(self, o: SInt) -> Cond {
        ccmp(Cond::Lt(self.0, o.0), self, o, |a, b| a < b)
    }
    pub fn le(self, o: SInt) -> Cond {
        ccmp(Cond::Le(self.0, o.0), self, o, |a, b| a <= b)
    }
    pub fn gt(self, o: SInt) -> Cond {
        o.lt(self)
    }
    pub fn ge(self, o: SInt) -> Cond {
        o.le(self)
    }
    pub fn eq(self, o: SInt) -> Cond {
        ccmp(Cond::Eq(self.0, o.0), self, o, |a, b| a == b)
    }
    pub fn ne(self, o: SInt) -> Cond {
        self.eq(o).not()
    }
}

/// the value of an integer term modulo 2^128 as a machine value (wrapping arithmetic)
pub fn wrap_u128(t: SInt) -> X {
    let m = SInt::big(Big::pow2(128));
    t.mod_e(m).0
}

fn ccmp(c: Cond, a: SInt, b: SInt, f: fn(&Big, &Big) -> bool) -> Cond {
    if let (Some(x), Some(y)) = (kz(a.0), kz(b.0)) {
        return Cond::from_bool(f(&x, &y));
    }
    c
}

#[cfg(test)]
mod tests {
    use super::*;

    #[test]
    fn concrete_mode_folds() {
        let rep = explore(
            || {
                let a = fresh("a", 0, 100, 7);
                let s = SInt::u(a).mul(SInt::c(u128::MAX)).mul(SInt::c(u128::MAX));
                let t = s.div_e(SInt::c(u128::MAX)).div_e(SInt::c(u128::MAX));
                prove("fold", t.eq(SInt::c(7)));
                prove("neg", SInt::i(-5).add(SInt::c(5)).eq(SInt::zero()));
            },
            Opts { mode: Mode::Concrete, ..Default::default() },
        );
        assert_eq!(rep.paths, 1);
        assert!(rep.obligations.iter().all(|o| o.verdict == Verdict::ConcreteTrue));
    }

    #[test]
    fn sym_paths_and_proofs() {
        // |a - b| computed with a branch: 2 paths, each proves the postcondition
        let rep = explore(
            || {
                let a = fresh("a", 0, VAR_MAX, 5);
                let b = fresh("b", 0, VAR_MAX, 3);
                let d = if a < b { b.checked_sub(a).unwrap() } else { a.checked_sub(b).unwrap() };
                prove("absdiff", SInt::u(d).eq(SInt::u(a).sub(SInt::u(b)).abs()));
                // a false claim must be refuted with a model
                prove("bogus", SInt::u(d).le(SInt::c(10)));
            },
            Opts::default(),
        );
        assert_eq!(rep.paths, 2, "{:?}", rep.aborted);
        let proved = rep.obligations.iter().filter(|o| o.label == "absdiff" && o.verdict == Verdict::Proved).count();
        assert_eq!(proved, 2);
        assert!(rep.obligations.iter().any(|o| o.label == "bogus" && o.verdict == Verdict::Refuted));
    }

    #[test]
    fn overflow_forks() {
        let rep = explore(
            || {
                let a = fresh("a", 0, VAR_MAX, 5);
                let b = fresh("b", 0, VAR_MAX, 3);
                match a.checked_mul(b) {
                    Some(p) => {
                        log_event("ok".into());
                        prove("inrange", SInt::u(p).le(SInt::c(u128::MAX)));
                    }
                    None => {
                        log_event("overflow".into());
                        prove("over", SInt::u(a).mul(SInt::u(b)).gt(SInt::c(u128::MAX)));
                    }
                }
            },
            Opts::default(),
        );
        assert_eq!(rep.paths, 2);
        assert!(rep.obligations.iter().all(|o| o.verdict == Verdict::Proved));
    }
}
