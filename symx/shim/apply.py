#!/usr/bin/env python3
"""Vendor cosmwasm-std 1.1.2 and cw-utils 0.13.4 from the local cargo registry cache into
symx/vendor/ and turn `Uint128` into a symbolic integer (payload `symrt::SymU128`).

Edits made (everything else is the unmodified upstream source):
  cosmwasm-std/src/math/uint128.rs   replaced by shim/uint128.rs
  cosmwasm-std/src/math/decimal.rs   `const fn is_zero/abs_diff` -> `fn` (they call Uint128::is_zero)
  cosmwasm-std/Cargo.toml            + dependency on symrt (path), dev-dependencies dropped
  cw-utils/src/balance.rs            `x.u128() != 0` -> `!x.is_zero()`, `x.u128() == 0` -> `x.is_zero()`,
                                     error operands `other.amount.u128()` -> `other.amount`
                                     (the bank module of cw-multi-test keeps balances in NativeBalance)
Idempotent; run from tools/setup.sh.
"""
import glob, os, re, shutil, sys

HERE = os.path.dirname(os.path.abspath(__file__))
SYMX = os.path.dirname(HERE)
VENDOR = os.path.join(SYMX, "vendor")


def find(crate):
    c = sorted(glob.glob(os.path.expanduser(f"~/.cargo/registry/src/*/{crate}")))
    if not c:
        sys.exit(f"apply.py: {crate} not in the cargo registry cache")
    return c[0]


def strip_dev_deps(toml):
    out, skip = [], False
    for line in toml.splitlines():
        if line.startswith("["):
            skip = line.startswith("[dev-dependencies")
        if not skip:
            out.append(line)
    return "\n".join(out) + "\n"


def main():
    os.makedirs(VENDOR, exist_ok=True)
    # ---- cosmwasm-std
    dst = os.path.join(VENDOR, "cosmwasm-std")
    if os.path.exists(dst):
        shutil.rmtree(dst)
    shutil.copytree(find("cosmwasm-std-1.1.2"), dst)
    for junk in ("Cargo.toml.orig", ".cargo_vcs_info.json", "Cargo.lock"):
        p = os.path.join(dst, junk)
        if os.path.exists(p):
            os.remove(p)
    shutil.copy(os.path.join(HERE, "uint128.rs"), os.path.join(dst, "src/math/uint128.rs"))
    dec = os.path.join(dst, "src/math/decimal.rs")
    s = open(dec).read()
    n0 = s.count("pub const fn is_zero(&self) -> bool") + s.count("pub const fn abs_diff(self, other: Self) -> Self")
    s = s.replace("pub const fn is_zero(&self) -> bool", "pub fn is_zero(&self) -> bool")
    s = s.replace("pub const fn abs_diff(self, other: Self) -> Self", "pub fn abs_diff(self, other: Self) -> Self")
    assert n0 == 2, f"decimal.rs: expected 2 const fns to relax, found {n0}"
    open(dec, "w").write(s)
    ct = os.path.join(dst, "Cargo.toml")
    t = strip_dev_deps(open(ct).read())
    t = t.replace("[dependencies.base64]", f'[dependencies.symrt]\npath = "{os.path.join(SYMX, "symrt")}"\n\n[dependencies.base64]', 1)
    assert "dependencies.symrt" in t
    open(ct, "w").write(t)
    # ---- cw-utils
    dst = os.path.join(VENDOR, "cw-utils")
    if os.path.exists(dst):
        shutil.rmtree(dst)
    shutil.copytree(find("cw-utils-0.13.4"), dst)
    for junk in ("Cargo.toml.orig", ".cargo_vcs_info.json", "Cargo.lock"):
        p = os.path.join(dst, junk)
        if os.path.exists(p):
            os.remove(p)
    bal = os.path.join(dst, "src/balance.rs")
    s = open(bal).read()
    reps = [
        ("c.amount.u128() != 0", "!c.amount.is_zero()", 1),
        ("remainder.u128() == 0", "remainder.is_zero()", 1),
        ("other.amount.u128(),", "other.amount,", 2),
    ]
    for a, b, n in reps:
        assert s.count(a) == n, f"balance.rs: expected {n} x {a!r}, found {s.count(a)}"
        s = s.replace(a, b)
    open(bal, "w").write(s)
    ct = os.path.join(dst, "Cargo.toml")
    t = strip_dev_deps(open(ct).read())
    open(ct, "w").write(t)
    print("apply.py: vendored cosmwasm-std 1.1.2 (symbolic Uint128) and cw-utils 0.13.4 into", VENDOR)


if __name__ == "__main__":
    main()
