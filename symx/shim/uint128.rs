use forward_ref::{forward_ref_binop, forward_ref_op_assign};
use schemars::JsonSchema;
use serde::{de, ser, Deserialize, Deserializer, Serialize};
use std::fmt::{self};
use std::ops::{
    Add, AddAssign, Div, DivAssign, Mul, MulAssign, Rem, RemAssign, Shr, ShrAssign, Sub, SubAssign,
};
use std::str::FromStr;

use crate::errors::{
    CheckedMultiplyRatioError, DivideByZeroError, OverflowError, OverflowOperation, StdError,
};
use crate::{ConversionOverflowError, Uint256, Uint64};

/// A thin wrapper around u128 that is using strings for JSON encoding/decoding,
/// such that the full u128 range can be used for clients that convert JSON numbers to floats,
/// like JavaScript and jq.
///
/// # Examples
///
/// Use `from` to create instances of this and `u128` to get the value out:
///
/// ```
/// # use cosmwasm_std::Uint128;
/// let a = Uint128::from(123u128);
/// assert_eq!(a.u128(), 123);
///
/// let b = Uint128::from(42u64);
/// assert_eq!(b.u128(), 42);
///
/// let c = Uint128::from(70u32);
/// assert_eq!(c.u128(), 70);
/// ```
#[derive(Copy, Clone, Default, Debug, PartialEq, Eq, JsonSchema)]
pub struct Uint128(#[schemars(with = "String")] pub(crate) symrt::SymU128);

// Ordering is written out instead of derived: the derive routes `<`, `<=`, `>`, `>=` through
// `partial_cmp`, i.e. through a three-way comparison (two decisions: "less?" then "equal?").
// Forwarding each operator keeps it ONE decision with its exact negation on the other side
// (`a > b` false records `a <= b`, not `a < b`), so a concolically executed prefix does not pin a
// strict inequality where the code only asked for a non-strict one.
impl PartialOrd for Uint128 {
    fn partial_cmp(&self, other: &Self) -> Option<core::cmp::Ordering> {
        self.0.partial_cmp(&other.0)
    }
    fn lt(&self, other: &Self) -> bool {
        self.0.lt(&other.0)
    }
    fn le(&self, other: &Self) -> bool {
        self.0.le(&other.0)
    }
    fn gt(&self, other: &Self) -> bool {
        self.0.gt(&other.0)
    }
    fn ge(&self, other: &Self) -> bool {
        self.0.ge(&other.0)
    }
}
impl Ord for Uint128 {
    fn cmp(&self, other: &Self) -> core::cmp::Ordering {
        self.0.cmp(&other.0)
    }
}

impl Uint128 {
    pub const MAX: Self = Self(symrt::SymU128::C(u128::MAX));
    pub const MIN: Self = Self(symrt::SymU128::C(u128::MIN));

    /// Creates a Uint128(value).
    ///
    /// This method is less flexible than `from` but can be called in a const context.
    pub const fn new(value: u128) -> Self {
        Uint128(symrt::SymU128::from_u128(value))
    }
    pub fn sym(v: symrt::SymU128) -> Self { Uint128(v) }
    pub fn raw(&self) -> symrt::SymU128 { self.0 }

    /// Creates a Uint128(0)
    #[inline]
    pub const fn zero() -> Self {
        Uint128(symrt::SymU128::C(0))
    }

    /// Creates a Uint128(1)
    #[inline]
    pub const fn one() -> Self {
        Self(symrt::SymU128::C(1))
    }

    /// Returns a copy of the internal data
    pub const fn u128(&self) -> u128 {
        self.0.as_conc()
    }

    /// Returns a copy of the number as big endian bytes.
    pub const fn to_be_bytes(self) -> [u8; 16] {
        self.0.as_conc().to_be_bytes()
    }

    /// Returns a copy of the number as little endian bytes.
    pub const fn to_le_bytes(self) -> [u8; 16] {
        self.0.as_conc().to_le_bytes()
    }

    pub fn is_zero(&self) -> bool {
        self.0.is_zero()
    }

    pub fn pow(self, exp: u32) -> Self {
        self.0.as_conc().pow(exp).into()
    }

    /// Returns `self * numerator / denominator`
    pub fn multiply_ratio<A: Into<u128>, B: Into<u128>>(
        &self,
        numerator: A,
        denominator: B,
    ) -> Uint128 {
        match self.checked_multiply_ratio(numerator, denominator) {
            Ok(value) => value,
            Err(CheckedMultiplyRatioError::DivideByZero) => {
                panic!("Denominator must not be zero")
            }
            Err(CheckedMultiplyRatioError::Overflow) => panic!("Multiplication overflow"),
        }
    }

    /// Returns `self * numerator / denominator`
    pub fn checked_multiply_ratio<A: Into<u128>, B: Into<u128>>(
        &self,
        numerator: A,
        denominator: B,
    ) -> Result<Uint128, CheckedMultiplyRatioError> {
        let numerator: u128 = numerator.into();
        let denominator: u128 = denominator.into();
        if denominator == 0 {
            return Err(CheckedMultiplyRatioError::DivideByZero);
        }
        match (self.full_mul(numerator) / Uint256::from(denominator)).try_into() {
            Ok(ratio) => Ok(ratio),
            Err(_) => Err(CheckedMultiplyRatioError::Overflow),
        }
    }

    /// Multiplies two u128 values without overflow, producing an
    /// [`Uint256`].
    ///
    /// # Examples
    ///
    /// ```
    /// use cosmwasm_std::Uint128;
    ///
    /// let a = Uint128::MAX;
    /// let result = a.full_mul(2u32);
    /// assert_eq!(result.to_string(), "680564733841876926926749214863536422910");
    /// ```
    pub fn full_mul(self, rhs: impl Into<u128>) -> Uint256 {
        Uint256::from(self.u128())
            .checked_mul(Uint256::from(rhs.into()))
            .unwrap()
    }

    pub fn checked_add(self, other: Self) -> Result<Self, OverflowError> {
        self.0
            .checked_add(other.0)
            .map(Self)
            .ok_or_else(|| OverflowError::new(OverflowOperation::Add, self, other))
    }

    pub fn checked_sub(self, other: Self) -> Result<Self, OverflowError> {
        self.0
            .checked_sub(other.0)
            .map(Self)
            .ok_or_else(|| OverflowError::new(OverflowOperation::Sub, self, other))
    }

    pub fn checked_mul(self, other: Self) -> Result<Self, OverflowError> {
        self.0
            .checked_mul(other.0)
            .map(Self)
            .ok_or_else(|| OverflowError::new(OverflowOperation::Mul, self, other))
    }

    pub fn checked_pow(self, exp: u32) -> Result<Self, OverflowError> {
        self.0.as_conc()
            .checked_pow(exp)
            .map(Self::new)
            .ok_or_else(|| OverflowError::new(OverflowOperation::Pow, self, exp))
    }

    pub fn checked_div(self, other: Self) -> Result<Self, DivideByZeroError> {
        self.0
            .checked_div(other.0)
            .map(Self)
            .ok_or_else(|| DivideByZeroError::new(self))
    }

    pub fn checked_div_euclid(self, other: Self) -> Result<Self, DivideByZeroError> {
        self.0
            .checked_div(other.0)
            .map(Self)
            .ok_or_else(|| DivideByZeroError::new(self))
    }

    pub fn checked_rem(self, other: Self) -> Result<Self, DivideByZeroError> {
        self.0
            .checked_rem(other.0)
            .map(Self)
            .ok_or_else(|| DivideByZeroError::new(self))
    }

    // wrapping / saturating forms: exact semantics on symbolic operands too (the overflow test
    // is a path decision; the wrapped value is the remainder modulo 2^128)
    pub fn wrapping_add(self, other: Self) -> Self {
        match self.0.checked_add(other.0) {
            Some(v) => Self(v),
            None => Self(symrt::wrap_u128(symrt::SInt::u(self.0).add(symrt::SInt::u(other.0)))),
        }
    }

    pub fn wrapping_sub(self, other: Self) -> Self {
        match self.0.checked_sub(other.0) {
            Some(v) => Self(v),
            None => Self(symrt::wrap_u128(symrt::SInt::u(self.0).sub(symrt::SInt::u(other.0)))),
        }
    }

    pub fn wrapping_mul(self, other: Self) -> Self {
        match self.0.checked_mul(other.0) {
            Some(v) => Self(v),
            None => Self(symrt::wrap_u128(symrt::SInt::u(self.0).mul(symrt::SInt::u(other.0)))),
        }
    }

    pub fn wrapping_pow(self, other: u32) -> Self {
        Self::new(self.0.as_conc().wrapping_pow(other))
    }

    pub fn saturating_add(self, other: Self) -> Self {
        match self.0.checked_add(other.0) {
            Some(v) => Self(v),
            None => Self::MAX,
        }
    }

    pub fn saturating_sub(self, other: Self) -> Self {
        match self.0.checked_sub(other.0) {
            Some(v) => Self(v),
            None => Self::zero(),
        }
    }

    pub fn saturating_mul(self, other: Self) -> Self {
        match self.0.checked_mul(other.0) {
            Some(v) => Self(v),
            None => Self::MAX,
        }
    }

    pub fn saturating_pow(self, exp: u32) -> Self {
        Self::new(self.0.as_conc().saturating_pow(exp))
    }

    pub fn abs_diff(self, other: Self) -> Self {
        if self.0 < other.0 { Self(other.0.checked_sub(self.0).unwrap()) } else { Self(self.0.checked_sub(other.0).unwrap()) }
    }
}

// `From<u{128,64,32,16,8}>` is implemented manually instead of
// using `impl<T: Into<u128>> From<T> for Uint128` because
// of the conflict with `TryFrom<&str>` as described here
// https://stackoverflow.com/questions/63136970/how-do-i-work-around-the-upstream-crates-may-add-a-new-impl-of-trait-error

impl From<Uint64> for Uint128 {
    fn from(val: Uint64) -> Self {
        val.u64().into()
    }
}

impl From<u128> for Uint128 {
    fn from(val: u128) -> Self {
        Uint128::new(val)
    }
}

impl From<u64> for Uint128 {
    fn from(val: u64) -> Self {
        Uint128::new(val.into())
    }
}

impl From<u32> for Uint128 {
    fn from(val: u32) -> Self {
        Uint128::new(val.into())
    }
}

impl From<u16> for Uint128 {
    fn from(val: u16) -> Self {
        Uint128::new(val.into())
    }
}

impl From<u8> for Uint128 {
    fn from(val: u8) -> Self {
        Uint128::new(val.into())
    }
}

impl TryFrom<Uint128> for Uint64 {
    type Error = ConversionOverflowError;

    fn try_from(value: Uint128) -> Result<Self, Self::Error> {
        Ok(Uint64::new(value.0.as_conc().try_into().map_err(|_| {
            ConversionOverflowError::new("Uint128", "Uint64", value.to_string())
        })?))
    }
}

impl TryFrom<&str> for Uint128 {
    type Error = StdError;

    fn try_from(val: &str) -> Result<Self, Self::Error> {
        Self::from_str(val)
    }
}

impl FromStr for Uint128 {
    type Err = StdError;

    fn from_str(s: &str) -> Result<Self, Self::Err> {
        match s.parse::<symrt::SymU128>() {
            Ok(u) => Ok(Uint128(u)),
            Err(e) => Err(StdError::generic_err(format!("Parsing u128: {}", e))),
        }
    }
}

impl From<Uint128> for String {
    fn from(original: Uint128) -> Self {
        original.to_string()
    }
}

impl From<Uint128> for u128 {
    fn from(original: Uint128) -> Self {
        original.0.as_conc()
    }
}

impl fmt::Display for Uint128 {
    fn fmt(&self, f: &mut fmt::Formatter) -> fmt::Result {
        self.0.fmt(f)
    }
}

impl Add<Uint128> for Uint128 {
    type Output = Self;

    fn add(self, rhs: Self) -> Self {
        Uint128(self.0.checked_add(rhs.0).expect("attempt to add with overflow"))
    }
}

impl<'a> Add<&'a Uint128> for Uint128 {
    type Output = Self;

    fn add(self, rhs: &'a Uint128) -> Self {
        self + *rhs
    }
}

impl Sub<Uint128> for Uint128 {
    type Output = Self;

    fn sub(self, rhs: Self) -> Self {
        Uint128(self.0.checked_sub(rhs.0).expect("attempt to subtract with overflow"))
    }
}
forward_ref_binop!(impl Sub, sub for Uint128, Uint128);

impl SubAssign<Uint128> for Uint128 {
    fn sub_assign(&mut self, rhs: Uint128) {
        *self = *self - rhs;
    }
}
forward_ref_op_assign!(impl SubAssign, sub_assign for Uint128, Uint128);

impl Mul<Uint128> for Uint128 {
    type Output = Self;

    fn mul(self, rhs: Self) -> Self::Output {
        Self(self.0.checked_mul(rhs.0).expect("attempt to multiply with overflow"))
    }
}
forward_ref_binop!(impl Mul, mul for Uint128, Uint128);

impl MulAssign<Uint128> for Uint128 {
    fn mul_assign(&mut self, rhs: Self) {
        *self = *self * rhs;
    }
}
forward_ref_op_assign!(impl MulAssign, mul_assign for Uint128, Uint128);

impl Div<Uint128> for Uint128 {
    type Output = Self;

    fn div(self, rhs: Self) -> Self::Output {
        Self(self.0.checked_div(rhs.0).expect("attempt to divide by zero"))
    }
}

impl<'a> Div<&'a Uint128> for Uint128 {
    type Output = Self;

    fn div(self, rhs: &'a Uint128) -> Self::Output {
        self / *rhs
    }
}

impl Shr<u32> for Uint128 {
    type Output = Self;

    fn shr(self, rhs: u32) -> Self::Output {
        Self::new(self.u128().checked_shr(rhs).expect("attempt to shift right with overflow"))
    }
}

impl<'a> Shr<&'a u32> for Uint128 {
    type Output = Self;

    fn shr(self, rhs: &'a u32) -> Self::Output {
        self >> *rhs
    }
}

impl AddAssign<Uint128> for Uint128 {
    fn add_assign(&mut self, rhs: Uint128) {
        *self = *self + rhs;
    }
}

impl<'a> AddAssign<&'a Uint128> for Uint128 {
    fn add_assign(&mut self, rhs: &'a Uint128) {
        *self = *self + rhs;
    }
}

impl DivAssign<Uint128> for Uint128 {
    fn div_assign(&mut self, rhs: Self) {
        *self = *self / rhs;
    }
}

impl<'a> DivAssign<&'a Uint128> for Uint128 {
    fn div_assign(&mut self, rhs: &'a Uint128) {
        *self = *self / rhs;
    }
}

impl Rem for Uint128 {
    type Output = Self;

    /// # Panics
    ///
    /// This operation will panic if `rhs` is zero.
    #[inline]
    fn rem(self, rhs: Self) -> Self {
        Self(self.0.checked_rem(rhs.0).expect("rem by zero"))
    }
}
forward_ref_binop!(impl Rem, rem for Uint128, Uint128);

impl RemAssign<Uint128> for Uint128 {
    fn rem_assign(&mut self, rhs: Uint128) {
        *self = *self % rhs;
    }
}
forward_ref_op_assign!(impl RemAssign, rem_assign for Uint128, Uint128);

impl ShrAssign<u32> for Uint128 {
    fn shr_assign(&mut self, rhs: u32) {
        *self = *self >> rhs;
    }
}

impl<'a> ShrAssign<&'a u32> for Uint128 {
    fn shr_assign(&mut self, rhs: &'a u32) {
        *self = *self >> rhs;
    }
}

impl Serialize for Uint128 {
    /// Serializes as an integer string using base 10
    fn serialize<S>(&self, serializer: S) -> Result<S::Ok, S::Error>
    where
        S: ser::Serializer,
    {
        serializer.serialize_str(&self.to_string())
    }
}

impl<'de> Deserialize<'de> for Uint128 {
    /// Deserialized from an integer string using base 10
    fn deserialize<D>(deserializer: D) -> Result<Uint128, D::Error>
    where
        D: Deserializer<'de>,
    {
        deserializer.deserialize_str(Uint128Visitor)
    }
}

struct Uint128Visitor;

impl<'de> de::Visitor<'de> for Uint128Visitor {
    type Value = Uint128;

    fn expecting(&self, formatter: &mut fmt::Formatter) -> fmt::Result {
        formatter.write_str("string-encoded integer")
    }

    fn visit_str<E>(self, v: &str) -> Result<Self::Value, E>
    where
        E: de::Error,
    {
        match v.parse::<symrt::SymU128>() {
            Ok(u) => Ok(Uint128(u)),
            Err(e) => Err(E::custom(format!("invalid Uint128 '{}' - {}", v, e))),
        }
    }
}

impl<A> std::iter::Sum<A> for Uint128
where
    Self: Add<A, Output = Self>,
{
    fn sum<I: Iterator<Item = A>>(iter: I) -> Self {
        iter.fold(Self::zero(), Add::add)
    }
}

impl PartialEq<&Uint128> for Uint128 {
    fn eq(&self, rhs: &&Uint128) -> bool {
        self == *rhs
    }
}

impl PartialEq<Uint128> for &Uint128 {
    fn eq(&self, rhs: &Uint128) -> bool {
        *self == rhs
    }
}

