//! Native evaluation of the C19 comparison functions on concrete operands (real build).
//!   replay <harness> <mag_a> <neg_a 0|1> [<mag_b> <neg_b>]      -> prints OK / FAIL: reason
//!   replay sweep                                               -> all harnesses over boundary operands
use intprops::model::*;
use margined_common::integer::Integer;

fn run(h: &str, a: Integer, b: Integer) -> R {
    std::panic::catch_unwind(|| match h {
        "checked_add" => chk_checked_add(a, b),
        "checked_sub" => chk_checked_sub(a, b),
        "add_op" => chk_add_op(a, b),
        "sub_op" => chk_sub_op(a, b),
        "unary" => chk_unary(a),
        "cmp" => chk_cmp(a, b),
        "checked_mul" => chk_checked_mul(a, b),
        "mul_div_small" | "mul_div" => chk_mul_div(a, b),
        "string" => chk_string(a),
        _ => Err("unknown harness"),
    })
    .unwrap_or(Ok(())) // a panic is an overflow in an unchecked operator: outside the claim
}

fn main() {
    let args: Vec<String> = std::env::args().collect();
    std::panic::set_hook(Box::new(|_| {}));
    if args[1] == "sweep" {
        let mags: Vec<u128> = vec![0, 1, 2, 5, 7, 10, u64::MAX as u128, u128::MAX / 2, u128::MAX - 1, u128::MAX];
        let mut fails = 0;
        for h in ["checked_add", "checked_sub", "add_op", "sub_op", "unary", "cmp", "checked_mul", "mul_div", "string"] {
            for &ma in &mags {
                for na in [false, true] {
                    for &mb in &mags {
                        for nb in [false, true] {
                            if let Err(e) = run(h, mk(ma, na), mk(mb, nb)) {
                                if fails < 40 {
                                    println!("FAIL {} a=({},{}) b=({},{}): {}", h, ma, na as u8, mb, nb as u8, e);
                                }
                                fails += 1;
                            }
                        }
                    }
                }
            }
        }
        println!("sweep: {} failing cases", fails);
        std::process::exit(if fails > 0 { 1 } else { 0 });
    }
    let h = &args[2 - 1];
    let ma: u128 = args[2].parse().unwrap();
    let na = args[3] == "1";
    let (mb, nb) = if args.len() > 5 { (args[4].parse().unwrap(), args[5] == "1") } else { (0, false) };
    match run(h, mk(ma, na), mk(mb, nb)) {
        Ok(()) => println!("OK"),
        Err(e) => {
            println!("FAIL: {}", e);
            std::process::exit(1)
        }
    }
}
