//! C19 — `margined_common::integer::Integer` against a sign/magnitude model of the mathematical
//! integers.  The comparison functions in `model` are written once and used twice:
//!   * by the Kani proof harnesses (`cfg(kani)`) over ALL 2^129 representations per operand,
//!     including the non-canonical `-0` (no loops => no unwinding bound => a pass is complete for
//!     the harness's input space);
//!   * by `src/bin/replay.rs`, which re-evaluates a harness on concrete operands natively against
//!     the real build (counterexample replay, boundary sweep).
//! Kani stubs: Display::fmt of Uint128 / Integer (only used to build error messages on the `Err`
//! paths of checked_*).
#![allow(clippy::all)]

pub mod model {
    use cosmwasm_std::Uint128;
    use margined_common::integer::Integer;
    use std::cmp::Ordering;

    pub type R = Result<(), &'static str>;
    pub fn mk(mag: u128, neg: bool) -> Integer {
        Integer { value: Uint128::new(mag), negative: neg }
    }
    /// mathematical value as (is_negative, magnitude), zero canonical
    pub fn norm(i: Integer) -> (bool, u128) {
        (i.negative && i.value.u128() != 0, i.value.u128())
    }
    pub fn m_add(a: (bool, u128), b: (bool, u128)) -> Option<(bool, u128)> {
        if a.0 == b.0 {
            a.1.checked_add(b.1).map(|m| (a.0 && m != 0, m))
        } else if a.1 >= b.1 {
            let m = a.1 - b.1;
            Some((a.0 && m != 0, m))
        } else {
            let m = b.1 - a.1;
            Some((b.0 && m != 0, m))
        }
    }
    pub fn m_neg(a: (bool, u128)) -> (bool, u128) {
        (!a.0 && a.1 != 0, a.1)
    }
    pub fn m_lt(a: (bool, u128), b: (bool, u128)) -> bool {
        if a.0 != b.0 {
            a.0
        } else if a.0 {
            a.1 > b.1
        } else {
            a.1 < b.1
        }
    }
    /// the result has the mathematical value `v` and every observer agrees with it
    pub fn consistent(r: Integer, v: (bool, u128)) -> R {
        if norm(r) != v {
            return Err("wrong value");
        }
        if (r == Integer::zero()) != (v.1 == 0) {
            return Err("equality with zero disagrees with the value");
        }
        if (r < Integer::zero()) != v.0 {
            return Err("ordering against zero disagrees with the value");
        }
        if r.is_negative() != v.0 {
            return Err("is_negative disagrees with the value");
        }
        if r.is_zero() != (v.1 == 0) {
            return Err("is_zero disagrees with the value");
        }
        if r.is_positive() != !v.0 {
            return Err("is_positive disagrees with the value");
        }
        Ok(())
    }

    pub fn chk_checked_add(a: Integer, b: Integer) -> R {
        match m_add(norm(a), norm(b)) {
            Some(v) => match a.checked_add(b) {
                Ok(r) => consistent(r, v),
                Err(_) => Err("checked_add failed without overflow"),
            },
            None => {
                if a.checked_add(b).is_err() {
                    Ok(())
                } else {
                    Err("checked_add succeeded on overflow")
                }
            }
        }
    }
    pub fn chk_checked_sub(a: Integer, b: Integer) -> R {
        match m_add(norm(a), m_neg(norm(b))) {
            Some(v) => match a.checked_sub(b) {
                Ok(r) => consistent(r, v),
                Err(_) => Err("checked_sub failed without overflow"),
            },
            None => {
                if a.checked_sub(b).is_err() {
                    Ok(())
                } else {
                    Err("checked_sub succeeded on overflow")
                }
            }
        }
    }
    pub fn chk_add_op(a: Integer, b: Integer) -> R {
        if let Some(v) = m_add(norm(a), norm(b)) {
            consistent(a + b, v)?;
            let mut c = a;
            c += b;
            consistent(c, v)?;
        }
        Ok(())
    }
    pub fn chk_sub_op(a: Integer, b: Integer) -> R {
        if let Some(v) = m_add(norm(a), m_neg(norm(b))) {
            consistent(a - b, v)?;
            let mut c = a;
            c -= b;
            consistent(c, v)?;
        }
        Ok(())
    }
    pub fn chk_unary(a: Integer) -> R {
        let v = norm(a);
        consistent(a, v)?;
        consistent(a.invert_sign(), m_neg(v))?;
        consistent(a.abs(), (false, v.1))?;
        consistent(Integer::new_negative(a.value), m_neg((false, v.1)))?;
        consistent(Integer::new_positive(a.value), (false, v.1))
    }
    pub fn chk_cmp(a: Integer, b: Integer) -> R {
        let (x, y) = (norm(a), norm(b));
        let lt = m_lt(x, y);
        let eq = x == y;
        let o = a.cmp(&b);
        let ok = (a < b) == lt
            && (a > b) == m_lt(y, x)
            && (a <= b) == (lt || eq)
            && (a >= b) == !lt
            && (a == b) == eq
            && (a != b) == !eq
            && (o == Ordering::Less) == lt
            && (o == Ordering::Equal) == eq
            && a.partial_cmp(&b) == Some(o);
        if ok {
            Ok(())
        } else {
            Err("comparison / equality disagrees with the mathematical order")
        }
    }
    pub fn chk_checked_mul(a: Integer, b: Integer) -> R {
        let (x, y) = (norm(a), norm(b));
        match x.1.checked_mul(y.1) {
            Some(m) => match a.checked_mul(b) {
                Ok(r) => consistent(r, ((x.0 != y.0) && m != 0, m)),
                Err(_) => Err("checked_mul failed without overflow"),
            },
            None => {
                if a.checked_mul(b).is_err() {
                    Ok(())
                } else {
                    Err("checked_mul succeeded on overflow")
                }
            }
        }
    }
    /// sign rule and zero canonicity of * and / (operators and checked forms); callers keep the
    /// magnitudes small enough for the product to fit
    pub fn chk_mul_div(a: Integer, b: Integer) -> R {
        let (x, y) = (norm(a), norm(b));
        if let Some(m) = x.1.checked_mul(y.1) {
            consistent(a * b, ((x.0 != y.0) && m != 0, m))?;
            match a.checked_mul(b) {
                Ok(r) => consistent(r, ((x.0 != y.0) && m != 0, m))?,
                Err(_) => return Err("checked_mul failed without overflow"),
            }
        }
        if y.1 != 0 {
            let q = x.1 / y.1;
            consistent(a / b, ((x.0 != y.0) && q != 0, q))?;
            match a.checked_div(b) {
                Ok(r) => consistent(r, ((x.0 != y.0) && q != 0, q)),
                Err(_) => Err("checked_div failed with a non-zero divisor"),
            }
        } else if a.checked_div(b).is_err() {
            Ok(())
        } else {
            Err("checked_div by zero succeeded")
        }
    }
    /// Display / FromStr / serde round trip (native replay and boundary sweep only; under Kani the
    /// decimal conversion loops are out of reach — the symbolic engine covers the string form)
    pub fn chk_string(a: Integer) -> R {
        use std::str::FromStr;
        let v = norm(a);
        let s = a.to_string();
        if v.1 == 0 && s != "0" {
            return Err("zero does not print as 0");
        }
        if s.starts_with('-') != v.0 {
            return Err("printed sign disagrees with the value");
        }
        match Integer::from_str(&s) {
            Ok(b) => {
                consistent(b, v)?;
                if b == a || v.1 == 0 {
                    Ok(())
                } else {
                    Err("parse(print(x)) != x")
                }
            }
            Err(_) => Err("printed form does not parse"),
        }
    }
}

#[cfg(kani)]
mod proofs {
    use super::model::*;
    use cosmwasm_std::Uint128;
    use margined_common::integer::Integer;

    fn int_fmt_stub(_x: &Integer, _f: &mut std::fmt::Formatter<'_>) -> std::fmt::Result {
        Ok(())
    }
    fn u_fmt_stub(_x: &Uint128, _f: &mut std::fmt::Formatter<'_>) -> std::fmt::Result {
        Ok(())
    }
    fn any_int() -> Integer {
        mk(kani::any(), kani::any())
    }

    macro_rules! stubbed {
        ($name:ident, $body:block) => {
            #[kani::proof]
            #[kani::stub(<margined_common::integer::Integer as std::fmt::Display>::fmt, int_fmt_stub)]
            #[kani::stub(<cosmwasm_std::Uint128 as std::fmt::Display>::fmt, u_fmt_stub)]
            fn $name() $body
        };
    }

    stubbed!(checked_add, {
        let (a, b) = (any_int(), any_int());
        assert!(chk_checked_add(a, b).is_ok());
        kani::cover!(m_add(norm(a), norm(b)).is_none());
        kani::cover!(norm(a).0 != norm(b).0 && norm(a).1 == norm(b).1 && norm(a).1 != 0);
    });
    stubbed!(checked_sub, {
        let (a, b) = (any_int(), any_int());
        assert!(chk_checked_sub(a, b).is_ok());
        kani::cover!(m_add(norm(a), m_neg(norm(b))).is_none());
    });
    stubbed!(add_op, {
        let (a, b) = (any_int(), any_int());
        assert!(chk_add_op(a, b).is_ok());
        kani::cover!(norm(a).0 != norm(b).0 && norm(a).1 == norm(b).1 && norm(a).1 != 0);
    });
    stubbed!(sub_op, {
        let (a, b) = (any_int(), any_int());
        assert!(chk_sub_op(a, b).is_ok());
        kani::cover!(norm(a) == norm(b) && norm(a).1 != 0);
    });
    #[kani::proof]
    fn unary() {
        let a = any_int();
        assert!(chk_unary(a).is_ok());
        kani::cover!(a.negative && a.value.u128() == 0);
    }
    #[kani::proof]
    fn cmp() {
        let (a, b) = (any_int(), any_int());
        assert!(chk_cmp(a, b).is_ok());
        kani::cover!(norm(a).1 == 0 && norm(b).1 == 0 && a.negative != b.negative);
    }
    stubbed!(checked_mul, {
        let (a, b) = (any_int(), any_int());
        assert!(chk_checked_mul(a, b).is_ok());
        kani::cover!(norm(a).1.checked_mul(norm(b).1).is_none());
    });
    stubbed!(mul_div_small, {
        let am: u8 = kani::any();
        let bm: u8 = kani::any();
        let a = mk(am as u128, kani::any());
        let b = mk(bm as u128, kani::any());
        assert!(chk_mul_div(a, b).is_ok());
        kani::cover!(norm(a).0 && norm(b).1 != 0 && norm(a).1 < norm(b).1);
    });
}
