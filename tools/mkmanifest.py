#!/usr/bin/env python3
"""Regenerates MANIFEST.json from the table below (kept in one place so that it is always valid)."""
import json, os
VERIF = os.path.dirname(os.path.dirname(os.path.abspath(__file__)))
props = [json.loads(l) for l in open(os.path.join(VERIF, "properties.jsonl"))]
ids = [p["id"] for p in props]

SYMX_NOTE = ("Trusted: rustc; the symbolic Uint128 shim (every run re-executes explored paths on the real cosmwasm-std and compares outcomes); "
             "cw-multi-test as chain model; z3 unsat answers (Int theory, exact checked arithmetic at full 128-bit width minus the top 2^32 handle zone); "
             "scenario templates bound history length and which quantities are symbolic (listed per scenario in the evidence).")

CLAIMED = {
    "C01": ("model_checking", "symbolic execution of the real vAMM contract through a symbolic Uint128 + SMT (z3) proof of k-monotonicity, base+net=initial and failed-swap-unchanged for ALL reserve pairs/amounts/limits; 1-3 step sequences; sequences and engine histories in which the owner closes and re-opens the market, or re-points the vAMM's margin_engine setting and back, between trades",
            "DESIGN.md §4 C01"),
    "C02": ("model_checking", "engine histories (open / increase / reduce / reverse / close / full and partial liquidation / funding / deposit / withdraw, long and short, cw20 and native, with fees) executed symbolically through engine -> vAMM -> reply; after EVERY transaction (successful or failed) z3 proves sum of signed position sizes == vAMM net position for all symbolic amounts on the path; owner interludes before the transaction under test (market closed and re-opened, out-of-range partial-liquidation ratio sent) with the liquidated remainder topped up and closed afterwards; partial closes on a pool priced at 0.1 with odd raw amounts",
            "DESIGN.md §4 C02"),
    "C03": ("model_checking", "same histories; per transaction z3 proves total collateral over all accounts unchanged, only sender/engine/insurance fund/fee pool balances move, a liquidated trader receives nothing, failed transactions move nothing; native variants with a symbolic amount of coins attached to messages that need none and to DepositMargin; a vAMM whose own insurance-fund field points at an outsider; balances of vAMMs and price feed are part of the conserved total; accounts without a role sending the fee pool's SendToken (recipient: owner / third party / self) and the insurance fund's Withdraw; the engine re-pointed at a second fee pool (the old one is no longer a permitted recipient)",
            "DESIGN.md §4 C03"),
    "C04": ("model_checking", "closes after price moves by a symbolic counter-trade (healthy / zero-equity / bad-debt regimes at 10x), after funding with a symbolic oracle price, after a partial close, with and without fees: z3 proves payout == margin + (vAMM quote - open notional, signed) - funding (from the stored checkpoint AND from the harness's own ledger of the last charge) - quoted fees, the position is gone, negative equity is rejected, and for every trader-initiated operation the insurance fund's loss <= the rise in recorded prepaid bad debt; a life-time ledger per position (wallet when last flat, quote its own trades moved, fees, funding by the harness's ledger) for complete round trips; two settlements whose premiums may cancel exactly with a position opened in between",
            "DESIGN.md §4 C04"),
    "C05": ("model_checking", "margin, leverage (incl. non-integer multiples and the 1/initial boundary) and initial/maintenance ratios symbolic: after every successful open (fresh, increase, reduce, reverse, after funding) MarginRatio >= maintenance and equals the ratio recomputed by the harness from Position/OutputAmount/OutputTwap/cumulative premium; leverage outside [1, 1/initial] rejected; withdraw/deposit accounting and non-negative free collateral; native DepositMargin with the attached coins a variable of their own; after a withdrawal free collateral is RECOMPUTED from Position/OutputAmount/OutputTwap/Config and the funding charged is taken from the harness's charged-at ledger (withdrawal after a partial close that settled funding)",
            "DESIGN.md §4 C05"),
    "C06": ("model_checking", "liquidations in three seeded regimes with maintenance ratio, liquidation fee, partial-liquidation ratio, oracle price (both sides of the 10% spread boundary) and counter-trade size symbolic: success only if the margin ratio as defined for liquidation (recomputed from primitives observed before the call) <= maintenance; exact payouts for full and partial liquidation, nothing to the trader, size reduced by exactly the fraction, never flipped or grown; owner interludes (out-of-range partial ratio sent, market re-opened, price feed replaced with the old feed left at a stale price)",
            "DESIGN.md §4 C06"),
    "C07": ("model_checking", "same liquidation histories: a failing Liquidate is proved to happen only when the position is NOT under-margined (or the fee is zero) for every value on the path; failures with the precondition satisfiable are counterexamples (one known finding: partial-liquidation margin underflow); band templates (symbolic fluctuation limit, a mover trade in the liquidation block explored exhaustively, pools priced 10 and 0.1) with 'already outside the band' computed from the harness's ledger of the previous block's closing price; paused-engine variants; the vAMM's price feed replaced before the liquidation (the oracle price is the harness's own record of what it submitted to the configured feed)",
            "DESIGN.md §4 C07"),
    "C08": ("model_checking", "same histories incl. naturally failing sub-messages (allowance/balance/limit/closed) plus FAULT INJECTION (the n-th call to the vAMM / cw20 / bank module / insurance fund / the engine's reply handler fails, one at a time, per template): an injected failure must fail the top-level call; after every transaction no tmp-swap / sent-funds / tmp-liquidator key remains; a failed transaction leaves raw storage of all contracts and all balances (semantically) identical",
            "DESIGN.md §4 C08"),
    "C09": ("model_checking", "every privileged ExecuteMsg variant of all five contracts (23) x every sender kind (owner, pauser, engine, insurance fund, vAMM, trader, stranger, + new/old holders after a role transfer), enumerated exhaustively on fresh deployments with the repository's own price feed; payload amounts/ratios symbolic over the full range; non-role senders must be rejected with raw storage of all contracts and all balances unchanged, role holders must not be rejected for authorisation; 13 state-dependent variants (both flag values of SetOpen / SetPause in both states, list edits and shutdowns that ask for no change); a vAMM deployed without an insurance fund before and after an ownership transfer; fee-pool payouts naming the owner / new owner as recipient; role-gated calls after the owner re-pointed the vAMM's price feed / the engine's fee pool at an account without a role",
            "DESIGN.md §4 C09"),
    "C10": ("model_checking", "same histories with 5 position holders: per transaction every other trader's whole Position record is proved equal term-for-term before and after (Liquidate: except the named trader); address-aliasing scenarios (position key = hash(vamm ++ trader): an attacker whose address is a suffix of the victim's sends each of the six engine messages with the crafted vamm string); every query of all five contracts leaves raw storage and balances bytewise unchanged; accounts whose names differ from the victim's only in letter case",
            "DESIGN.md §4 C10"),
    "C11": ("model_checking", "PayFunding at enumerated block times around the funding time ({-1,0,+1,+buffer..}) for periods {3600,5400,86400}, 1-3 settlements, net position of either sign (counter size symbolic), oracle price symbolic: success only at/after the funding time, cumulative fraction delta == trunc((vAMM TWAP - oracle TWAP) x period/day) from queries made before, next funding time >= now + period/2, exactly |net x fraction| moves vault<->insurance fund (capped at the vault balance); after a settlement every position operation (increase, reduce/reverse, withdraw, partial and whole close, deposit, partial liquidation) is checked for the exact funding charge and checkpoint movement; a full liquidation hands the insurance fund exactly margin + PnL - funding owed (by the harness's charged-at ledger) - the liquidator's share",
            "DESIGN.md §4 C11"),
    "C12": ("model_checking", "shared histories with toll and spread symbolic in [0,1] and amounts down to fee-rounds-to-zero: per transaction z3 proves fee-pool delta == floor(notional*toll), insurance-fund delta (net of recorded prepaid bad debt) == floor(notional*spread) with notional = floor(margin*leverage), once per reversal, the quoted fee on the open notional for whole closes, and zero for deposit/withdraw/funding/liquidation; the trader side of a whole close (wallet delta = equity - quoted fees, cw20 and native); witness seeds with toll = 0 and with spread = 0; a vAMM whose own insurance-fund field points elsewhere; the configured ratios come from a harness ledger of instantiation and owner updates, not from the vAMM's Config answer; the engine re-pointed at a second fee pool",
            "DESIGN.md §4 C12"),
    "C13": ("model_checking", "twin deployments (native uwasm / cw20, 6 decimals, equal parameters) run the same symbolic history in lock-step inside one scenario, the native call attaching the sum of TransferFrom{owner: caller} amounts the cw20 twin delivered; per step z3 proves equality of Position records, vAMM state, engine state and per-account balance deltas (a relational property over two symbolic executions); funding settlements (symbolic oracle price) followed by close / opposite order / withdraw+increase+close / liquidation, partial closes under a band, fees fixed or symbolic in [0,10%], and 24 (thorough 120) generated lock-step histories; twins whose insurance funds hold one / three tokens only; the native twin on the other accepted denom (ujunox)",
            "DESIGN.md §4 C13"),
    "C14": ("model_checking", "flags paused x closed x unregistered (7 non-trivial combinations) x 6 engine operations on a staged state with a liquidatable position and due funding, operation amounts symbolic, twin live deployment for 'pause does not block liquidation/funding'; registry histories of AddVamm/RemoveVamm over 4 addresses (all of length<=3, sampled length 5; thorough: all of length<=5) checked for duplicates/size/membership agreement; shutdown from every subset of already-closed vAMMs; '.band' variants (tight price band + 25% fraction so that ClosePosition / Liquidate take their partial arms); registry membership compared with a harness ledger of the owner's successful calls, removals in every order; an unregistered vAMM whose own insurance_fund setting names a second fund instance that lists it; paused native deployments",
            "DESIGN.md §4 C14"),
    "C15": ("model_checking", "fluctuation limit, trade sizes and position size symbolic; band computed by the harness from the previous block's final price; successful opens (fresh / after in-block drift / reducing-reversing) proved to leave the spot price inside the band and to be rejected when it is already outside; ClosePosition with a 25% fraction: whole close only if the price after the whole close (vAMM quote) is inside, partial closes exactly the configured fraction; block patterns enumerated; one / four blocks without any trade before the block under test",
            "DESIGN.md §4 C15"),
    "C16": ("model_checking", "all event sequences of length 3 (sampled length 4; thorough: all) over {trades by bob / liquidator / bystander / alice, closes, liquidation of alice, next block} on a staged liquidatable position (full and partial liquidation): an Open/Close by a trader whose Position.block_number is the current block after a liquidation in that block is rejected with storage and balances unchanged, nobody else is rejected for that reason; dedicated orderings with symbolic amounts; liquidation fee symbolic down to zero in the dedicated orderings; two-vAMM scenarios (a liquidation on one vAMM restricts second actions on that vAMM only); partial-liquidation ratio at exactly 100 %",
            "DESIGN.md §4 C16"),
    "C17": ("model_checking", "vAMM alone from ALL reserve pairs with symbolic amount and limit: InputAmount/OutputAmount query before == reserve deltas, net-position delta and event attributes after; limit semantics with the limit on both sides of the executed amount; through the engine the limit inside the delivered vAMM sub-message is proved equal to the caller's on fresh/increase/reduce/whole close; whole close that leaves the band under a 100% fraction, and whole liquidation (partial ratio 0), each with a symbolic limit; the vAMM-alone swaps also on a vAMM that charges a 1 % toll and spread",
            "DESIGN.md §4 C17"),
    "C20": ("model_checking", "engine UpdateConfig with each optional ratio absent|symbolic over the full range (all 15 masks, sequences of 2-3, symbolic instantiate ratios), vAMM instantiate/UpdateConfig likewise with the twap interval from the boundary set; after every call z3 proves all stored ratios <= 1 and maintenance <= initial; AddVamm x decimals enumerated; caps: symbolic open-interest and holding caps, whitelist enumerated, caps changed between trades, margins symbolic",
            "DESIGN.md §4 C20"),
    "C18": ("model_checking", "vAMM alone on enumerated block schedules (gaps, several trades per block incl. an extreme intermediate price, queries in the trading block) with symbolic swap amounts: TwapPrice for intervals shorter/equal/longer than the history is proved to lie within the end-of-block spot prices in effect during the window and to equal the spot when unchanged; one snapshot per traded block; the repository's price feed with symbolic prices at enumerated timestamps: TWAP within the submitted prices overlapping the window, latest / n-rounds-back return exactly what was submitted; histories of 9 and 27 days with windows around and beyond one week; 150 (thorough 400) consecutive traded blocks; schedules on a vAMM with a 5 % price band; feed rounds sent as AppendMultiplePrice batches onto an existing history",
            "DESIGN.md §4 C18"),
    "C19": ("model_checking", "two engines: (1) Kani/CBMC bit-precise harnesses over ALL 2^129 operand representations (incl. -0) for add/sub/neg/abs/constructors/cmp/eq/sign predicates and checked-vs-unchecked agreement, loop-free so complete for the input space (thorough adds full-width checked_mul); (2) symx/z3 for full-width mul, truncating div, add/sub, ordering and the Display/FromStr/serde round trip with symbolic 128-bit magnitudes",
            "DESIGN.md §3, §4 C19"),
}
NOT_YET = "check not built yet in this round (planned: symx scenario family, see DESIGN.md §4)"

checks, na = [], []
for i in ids:
    if i in CLAIMED:
        cat, text, ref = CLAIMED[i]
        checks.append({
            "property_id": i,
            "quick_cmd": f"./check {i} quick",
            "thorough_cmd": f"./check {i} thorough",
            "evidence_file": f"evidence/{i}.json",
            "replay_cmd_template": f"./check {i} quick --replay {{path}}",
            "engine": "symx+kani" if i == "C19" else "symx",
            "level_claimed": {"category": cat, "text": text, "design_ref": ref},
            "level_note": SYMX_NOTE,
            "technique": ("Kani/CBMC bounded model checking of Integer (SAT, all operand bit patterns) + " if i == "C19" else "") + "native symbolic execution of the compiled contract code (symbolic Uint128) with SMT-decided path forks and proof obligations (z3/cvc5)",
        })
    else:
        na.append({"property_id": i, "reason": NOT_YET})
m = {
    "version": 1,
    "setup_cmd": "tools/setup.sh",
    "hooks": {"guard": "none (no source hooks: every contract exposes contract::{instantiate,execute,query,reply} publicly)",
              "enable": "n/a - checks build /repo's crates unmodified as path dependencies",
              "baseline_off_cmd": "cd /repo && cargo test --workspace --no-fail-fast --offline",
              "source_commits": [], "add_only": True},
    "engines": [
        {"name": "symx", "path": "symx/", "serves_properties": [c["property_id"] for c in checks if "symx" in c["engine"]],
         "kind_free_text": "symbolic execution of the natively compiled contracts via a symbolic cosmwasm_std::Uint128; z3 decides forks and obligations; replay and trace validation on a second build against the real cosmwasm-std"},
        {"name": "kani", "path": "kani/intprops", "serves_properties": ["C19"],
         "kind_free_text": "Kani 0.68 / CBMC 6.11 proof harnesses over the real margined_common::integer::Integer; counterexamples replayed natively by kani/intprops/src/bin/replay.rs"},
    ],
    "checks": checks,
    "not_applicable": na,
    "notes": "exit 0 = held on everything explored; 1 = reproduced counterexample (VIOLATION line); 2 = inconclusive (build failure, engine limitation, shim/real divergence)",
}
json.dump(m, open(os.path.join(VERIF, "MANIFEST.json"), "w"), indent=1)
print("MANIFEST.json:", len(checks), "checks,", len(na), "not applicable")
