#!/usr/bin/env python3
"""Keep a confirmed seeded change under /verif/seeded/<ID>-<round>/.

  tools/keep_seeded.py <ID> <round-letter> <srcdir> <result> <caught_by> <history>

srcdir holds the sub-agent's patch.diff, demo.diff, meta.json (and patch.orig.diff when the patch had
to be rebased over a later fix: commit in /repo).  The agent's meta.json is kept and extended with what
was run here.
"""
import json
import os
import shutil
import sys

VERIF = os.path.dirname(os.path.dirname(os.path.abspath(__file__)))
pid, rnd, src, result, caught_by, history = sys.argv[1:7]
dst = os.path.join(VERIF, "seeded", f"{pid}-{rnd}")
os.makedirs(dst, exist_ok=True)
for f in ("patch.diff", "demo.diff", "patch.orig.diff"):
    if os.path.exists(os.path.join(src, f)):
        shutil.copy(os.path.join(src, f), os.path.join(dst, f))
m = json.load(open(os.path.join(src, "meta.json")))
if "needs" in m and "needs_to_manifest" not in m:
    m["needs_to_manifest"] = m.pop("needs")
m["property"] = pid
m["confirmed"] = f"tools/confirm_seeded.sh <scratch worktree>: with the change the full suite passes (410) and only the demonstration fails; with the change reverted the demonstration passes"
m["checked_with"] = f"tools/try_seeded.sh seeded/{pid}-{rnd} {pid} quick   (scratch worktree of /repo HEAD + VERIF_REPO; IN_REPO=1 applies to /repo itself and undoes it)"
m["result"] = result
m["caught_by"] = caught_by
m["history"] = history
m["author"] = "independent sub-agent (round given in the directory name: given the property text and one-line summaries of all earlier changes for the property, told to pick a different site/mechanism)"
if os.path.exists(os.path.join(src, "patch.orig.diff")):
    m["rebased"] = "patch.diff is the sub-agent's change rebased over a later fix: commit in /repo (patch.orig.diff is what the sub-agent delivered); re-confirmed after rebasing"
json.dump(m, open(os.path.join(dst, "meta.json"), "w"), indent=1)
print("kept", dst)
