#!/bin/bash
# confirm a sub-agent's seeded change in its scratch worktree:
#   with the change: the whole suite passes except the demonstration; without it the demonstration passes
# usage: confirm_seeded.sh <worktree>
wt=$1
cd $wt || exit 1
export CARGO_NET_OFFLINE=true
echo "== with change + demo: full suite"
cargo test --workspace --offline --no-fail-fast 2>&1 | grep -E "^test result|^test .* FAILED|^error" | sort | uniq -c | sort -rn | head -12
echo "== without change (demo kept): demo only"
git apply -R seeded_out/patch.diff || exit 1
cargo test --workspace --offline seeded 2>&1 | grep -E "^test result: .* [1-9][0-9]* passed|FAILED|^error" | head
git apply seeded_out/patch.diff
