#!/usr/bin/env python3
"""Print the prompt given to an independent sub-agent that seeds a property-breaking change.

  tools/agent_prompt.py <PROPERTY-ID> <worktree-dir> [round-letter]

The sub-agent is given only the property's text (id, title, statement, quantifier) and its own scratch
worktree; nothing from /verif.  From the second round on it is also told, in one line each, which
changes were already made for this property (summaries from seeded/<ID>-*/meta.json) so that it picks
a different one.
"""
import glob
import json
import os
import sys

VERIF = os.path.dirname(os.path.dirname(os.path.abspath(__file__)))
pid, wt = sys.argv[1], sys.argv[2]
rnd = sys.argv[3] if len(sys.argv) > 3 else "c"
prop = None
for l in open(os.path.join(VERIF, "properties.jsonl")):
    p = json.loads(l)
    if p["id"] == pid:
        prop = p
text = f"{prop['id']}: {prop['title']}\n\n{prop['statement']}\n\nMust hold for: {prop['quantifier']['text']}\n"
taken = []
for m in sorted(glob.glob(os.path.join(VERIF, "seeded", pid + "-*", "meta.json"))):
    if os.path.basename(os.path.dirname(m)) >= f"{pid}-{rnd}":
        continue
    s = json.load(open(m)).get("summary", "")
    taken.append("  - " + s[:420].replace("\n", " "))
flavour = os.environ.get("FLAVOUR", "")
avoid = ""
if taken:
    avoid = "\nChanges ALREADY TAKEN by earlier rounds for this property (pick something DIFFERENT: another site, another mechanism, another part of the property's statement):\n" + "\n".join(taken) + "\n"

print(f"""You are helping to evaluate a verification tool by seeding a realistic defect ("mutant") into a Rust code base.

The code base is a CosmWasm perpetual-futures protocol (margined-protocol/perpetuals): a constant-product virtual AMM (contracts/margined_vamm), a margin engine with a reply-driven position state machine (contracts/margined_engine), insurance fund, fee pool, price feed, and shared packages (packages/*). You have your OWN scratch git worktree of it at {wt} . Work ONLY inside {wt} . Do NOT read or touch /verif or /repo (they are off limits), and do not use the network (there is none; always pass --offline to cargo and set CARGO_NET_OFFLINE=true).

The property that should hold for this code base:

---
{text}---
{avoid}{("Preference for this round: " + flavour + chr(10)) if flavour else ""}
Your task: make ONE small source change (a few lines, in non-test source files under contracts/ or packages/) that BREAKS this property, such that
  1. the workspace still compiles, and
  2. the ENTIRE existing test suite still passes unedited:  cd {wt} && CARGO_NET_OFFLINE=true cargo test --workspace --offline 2>&1 | grep -E "^test result|FAILED|failed"   (all 410 tests must pass; you must not edit, delete or ignore any existing test), and
  3. the breakage needs something SPECIFIC to manifest - a particular multi-step sequence of operations, an unusual input or boundary value, a particular configuration, a particular ordering within a block, two cooperating sites that each look fine alone, etc. - NOT something ordinary use would expose at once (that is why the existing tests still pass). Think like a subtle, realistic bug a code reviewer could miss: a flipped comparison at a boundary, a wrong variable in a rarely taken reply arm, a missing state update on one path, a rounding direction, a sign in one branch, validation against the wrong field, etc.

Then write a DEMONSTRATION: a new Rust integration-style test (put it in a NEW file, e.g. contracts/margined_engine/src/testing/seeded_demo.rs registered with a `mod` line in that crate's testing/mod.rs, or an equivalent new test file in the relevant crate; use the existing test helpers in packages/margined_utils/src/scenarios and the existing tests as examples of how to drive the contracts with cw-multi-test; the test function name must contain the word `seeded`) that PASSES on the original code and FAILS with your change, because it observes the property being violated through the public API (execute messages, queries, balances). Verify both: run the demo test with your change applied (must fail) and with the change reverted via manual revert of only the source change (must pass).

Deliver, in the directory {wt}/seeded_out/ (create it):
  - patch.diff : `git diff` of ONLY the source change (not the demo test),
  - demo.diff  : `git diff`/new-file diff of ONLY the demonstration test (so that patch.diff and demo.diff can be applied independently with `git apply`; for a new untracked file use `git add -N <file>` before `git diff` so it shows up),
  - meta.json  : {{"property": "{pid}", "summary": "<what the change does>", "needs_to_manifest": "<what it needs in order to manifest>", "files": [...], "demo_test": "<crate and test name>", "ran": "<the commands you ran and their results>"}}.
Leave the worktree with BOTH the change and the demo test applied. Keep build output inside the worktree (default target dir). Be efficient: read the relevant source first (handle.rs / reply.rs / utils.rs / query.rs etc.), pick the change, then iterate. To save time while iterating run only the relevant crate's tests (cargo test -p <crate> --offline), and the whole workspace once at the end. Report back briefly what you changed and the file paths.""")
