#!/bin/bash
# run every quick check on the current /repo tree (VERIF_SEED default 1) and report
cd "$(dirname "$0")/.."
export VERIF_SEED=${VERIF_SEED:-1}
for i in C01 C02 C03 C04 C05 C06 C07 C08 C09 C10 C11 C12 C13 C14 C15 C16 C17 C18 C19 C20; do
  s=$(date +%s)
  ./check $i ${1:-quick} > /tmp/refresh-$i.log 2>&1; rc=$?
  echo "$i exit=$rc $(( $(date +%s) - s ))s  $(grep -a -E '^OK|VIOLATION|INCONCLUSIVE' /tmp/refresh-$i.log | head -2 | cut -c1-170)"
done
