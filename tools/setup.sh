#!/bin/bash
# Offline set-up after a fresh restore: vendor + patch cosmwasm-std / cw-utils from the cargo
# registry cache, pre-build both harness binaries (and the Kani harness crate, if present).
set -e
cd "$(dirname "$0")/.."
V="$PWD"
export CARGO_NET_OFFLINE=true
python3 symx/shim/apply.py
for ws in ws-sym ws-real; do
  [ -f symx/$ws/Cargo.lock ] || cp /repo/Cargo.lock symx/$ws/Cargo.lock
done
(cd symx/ws-sym && CARGO_TARGET_DIR=$V/.build/sym cargo build --offline -q)
(cd symx/ws-real && CARGO_TARGET_DIR=$V/.build/real cargo build --offline -q)
echo "setup symx ok"
# Kani harness crate for C19: native replay binary + a first kani compile (warms the cache)
[ -f kani/intprops/Cargo.lock ] || cp /repo/Cargo.lock kani/intprops/Cargo.lock
(cd kani/intprops && CARGO_TARGET_DIR=$V/.build/kani-native cargo build --offline -q)
(cd kani/intprops && cargo kani --target-dir $V/.build/kani -Z stubbing --output-format terse --harness unary >/dev/null 2>&1 || true)
echo "setup kani ok"
