#!/bin/bash
# run a property's check against a seeded change.
# usage: try_seeded.sh <seeded/dir | patch.diff> <PROP> [tier]
#   default: in a scratch worktree of /repo's HEAD under /tmp/seeded-try (VERIF_REPO), so /repo and
#            the registered evidence are never touched and real checks may run at the same time;
#   IN_REPO=1: the brief's way - apply to /repo, run the check, undo.
d=$1; prop=$2; tier=${3:-quick}
cd /verif
patch=$d; [ -d "$d" ] && patch=$d/patch.diff
patch=$(readlink -f $patch)
if [ -n "$IN_REPO" ]; then
  git -C /repo status --short | grep -q . && { echo "/repo not clean"; exit 9; }
  git -C /repo apply $patch || exit 9
  ./check $prop $tier > ${TRY_LOG:-/tmp/try-$prop.log} 2>&1; rc=$?
  git -C /repo checkout -- .
else
  wt=${TRY_WT:-/tmp/seeded-try}
  [ -d $wt ] || git -C /repo worktree add --detach $wt HEAD >/dev/null 2>&1 || exit 9
  git -C $wt checkout -q --detach $(git -C /repo rev-parse HEAD) && git -C $wt checkout -q -- . || exit 9
  git -C $wt apply $patch || exit 9
  VERIF_REPO=$wt ./check $prop $tier > ${TRY_LOG:-/tmp/try-$prop.log} 2>&1; rc=$?
  git -C $wt checkout -q -- .
fi
echo "$d $prop $tier exit=$rc $(grep -a -c VIOLATION ${TRY_LOG:-/tmp/try-$prop.log}) violation lines; first: $(grep -a -m1 counterexample ${TRY_LOG:-/tmp/try-$prop.log} | cut -c1-260)"
