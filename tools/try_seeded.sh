#!/bin/bash
# run a property's check against a seeded change: apply to /repo, check, undo
# usage: try_seeded.sh <seeded/dir> <PROP> [tier]
d=$1; prop=$2; tier=${3:-quick}
cd /verif
git -C /repo status --short | grep -q . && { echo "/repo not clean"; exit 9; }
git -C /repo apply $PWD/$d/patch.diff || exit 9
./check $prop $tier > /tmp/try-$prop.log 2>&1; rc=$?
git -C /repo checkout -- . 
echo "$d $prop $tier exit=$rc $(grep -a -c VIOLATION /tmp/try-$prop.log) violation lines; first: $(grep -a -m1 counterexample /tmp/try-$prop.log | cut -c1-260)"
