#!/bin/bash
# run every kept seeded change against its property's quick check (scratch worktrees, VERIF_REPO), in
# LANES parallel lanes; prints one line per change and a summary.  usage: regress_seeded.sh [pattern]
cd /verif
LANES=${LANES:-2}
pat=${1:-.}
ls -d seeded/*/ | sed 's#/$##' | grep -E -- "$pat" > /tmp/regress.list
split -n l/$LANES -d /tmp/regress.list /tmp/regress.lane.
for f in /tmp/regress.lane.*; do
  lane=${f##*.}
  ( while read d; do
      prop=$(basename $d | cut -d- -f1)
      out=$(TRY_WT=/tmp/seeded-try-$lane SYMX_JOBS=${SYMX_JOBS:-7} TRY_LOG=/tmp/regress-$(basename $d).log tools/try_seeded.sh $d $prop quick 2>&1 | tail -1)
      echo "$out"
    done < $f ) > /tmp/regress.out.$lane 2>&1 &
done
wait
cat /tmp/regress.out.* | sort | cut -c1-200
echo "caught: $(cat /tmp/regress.out.* | grep -c 'exit=1')  not caught: $(cat /tmp/regress.out.* | grep -vc 'exit=1')"
