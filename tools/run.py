#!/usr/bin/env python3
"""Driver for the solver-based checks.

  tools/run.py <PROPERTY> <quick|thorough> [--replay FILE]

Builds hx-sym (harness against the symbolic cosmwasm-std) and hx-real (same sources against the
real cosmwasm-std) from /repo's working tree, runs the property's scenarios in parallel, validates
explored paths against the real build, replays counterexamples on the real build, filters known
findings, writes evidence/<PROPERTY>.json and prints VIOLATION / KNOWN-FINDING lines.

exit 0  property held on everything explored (known findings listed, undischarged obligations reported)
exit 1  a counterexample reproduced on the real build and is not a known finding
exit 2  inconclusive: build failure, engine limitation, shim/real divergence, non-reproducing model
"""
import concurrent.futures as cf
import hashlib
import json
import os
import re
import shutil
import subprocess
import sys
import time

VERIF = os.path.dirname(os.path.dirname(os.path.abspath(__file__)))
SYMX = os.path.join(VERIF, "symx")
BUILD = os.path.join(VERIF, ".build")
# VERIF_REPO (default /repo): the tree the contracts are built from.  Only used to try the checks
# against a scratch worktree (seeded changes) without touching /repo; everything derived from an
# alternative tree (workspaces, build output, evidence, replays) lives under .build/alt-<hash>/ so
# that nothing registered in MANIFEST.json is affected.
REPO = os.path.abspath(os.environ.get("VERIF_REPO", "/repo"))
ALT = None
if REPO != "/repo":
    ALT = os.path.join(BUILD, "alt-" + hashlib.sha1(REPO.encode()).hexdigest()[:8])
    BUILD_T = ALT
    WS_ROOT = os.path.join(ALT, "symx")
    OUT_ROOT = ALT
else:
    BUILD_T = BUILD
    WS_ROOT = SYMX
    OUT_ROOT = VERIF
HX_SYM = os.path.join(BUILD_T, "sym", "debug", "hx-sym")
HX_REAL = os.path.join(BUILD_T, "real", "debug", "hx-real")
ENV = dict(os.environ, CARGO_NET_OFFLINE="true")
JOBS = int(os.environ.get("SYMX_JOBS", "14"))


def log(*a):
    print(*a, flush=True)


def ensure_vendor():
    shim = os.path.join(SYMX, "shim", "uint128.rs")
    vend = os.path.join(SYMX, "vendor", "cosmwasm-std", "src", "math", "uint128.rs")
    if not os.path.exists(vend) or open(shim).read() != open(vend).read():
        subprocess.check_call([sys.executable, os.path.join(SYMX, "shim", "apply.py")], stdout=subprocess.DEVNULL)
    for ws in ("ws-sym", "ws-real"):
        lock = os.path.join(SYMX, ws, "Cargo.lock")
        if not os.path.exists(lock):
            shutil.copy("/repo/Cargo.lock", lock)
    if ALT:
        os.makedirs(WS_ROOT, exist_ok=True)
        for ws in ("ws-sym", "ws-real"):
            os.makedirs(os.path.join(WS_ROOT, ws), exist_ok=True)
            t = open(os.path.join(SYMX, ws, "Cargo.toml")).read().replace('"/repo/', '"' + REPO + '/').replace('"../', '"' + SYMX + '/')
            open(os.path.join(WS_ROOT, ws, "Cargo.toml"), "w").write(t)
            shutil.copy(os.path.join(SYMX, ws, "Cargo.lock"), os.path.join(WS_ROOT, ws, "Cargo.lock"))


def build():
    """(re)build both harness binaries from /repo's current working tree"""
    ensure_vendor()
    t0 = time.time()
    for ws, tgt in (("ws-sym", "sym"), ("ws-real", "real")):
        p = subprocess.run(
            ["cargo", "build", "--offline", "-q"],
            cwd=os.path.join(WS_ROOT, ws),
            env=dict(ENV, CARGO_TARGET_DIR=os.path.join(BUILD_T, tgt)),
            stdout=subprocess.PIPE,
            stderr=subprocess.STDOUT,
            text=True,
        )
        if p.returncode != 0:
            log(p.stdout[-4000:])
            log(f"INCONCLUSIVE: build of {ws} failed")
            sys.exit(2)
    return time.time() - t0


def scenarios(prop, tier):
    out = subprocess.check_output([HX_SYM, "list", prop, tier], text=True)
    return [l.strip() for l in out.splitlines() if l.strip()]


def run_one(name, seed, tmp, tier):
    out = os.path.join(tmp, name + ".json")
    t0 = time.time()
    env = dict(ENV)
    if tier == "quick":
        env.setdefault("SYMX_MAX_SECS", "75")
        env.setdefault("SYMX_PROVE_MS", "3000")
        env.setdefault("SYMX_PROVE_RETRY_MS", "10000")
        env.setdefault("SYMX_FEAS_MS", "250")
        env.setdefault("SYMX_FEAS_RETRY_MS", "1200")
        # boundary restarts (ratio-like variables started at 0 and at their maximum): extra
        # exploration with a time budget of its own
        env.setdefault("SYMX_RESTART_SECS", "12")
    else:
        env.setdefault("SYMX_PROVE_RETRY_MS", "60000")
        env.setdefault("SYMX_RESTART_SECS", "300")
    try:
        p = subprocess.run([HX_SYM, "run", name, str(seed), out], env=env, stdout=subprocess.PIPE, stderr=subprocess.STDOUT, text=True, timeout=3600)
    except subprocess.TimeoutExpired:
        return name, None, "timeout", time.time() - t0
    if p.returncode != 0 or not os.path.exists(out):
        return name, None, (p.stdout or "")[-2000:], time.time() - t0
    return name, json.load(open(out)), (p.stdout or "")[-500:], time.time() - t0


def concrete(binary, name, seed, items, tmp, tag):
    inp = os.path.join(tmp, f"{name}.{tag}.in.json")
    outp = os.path.join(tmp, f"{name}.{tag}.out.json")
    json.dump(items, open(inp, "w"))
    p = subprocess.run([binary, "concrete", name, str(seed), inp, outp], env=ENV, stdout=subprocess.PIPE, stderr=subprocess.STDOUT, text=True, timeout=1800)
    if p.returncode != 0 or not os.path.exists(outp):
        return None, (p.stdout or "")[-2000:]
    return json.load(open(outp)), ""



# ------------------------------------------------------------------------------------------
# Kani part (C19): bit-precise bounded model checking of Integer against a sign/magnitude model
# ------------------------------------------------------------------------------------------
KANI_SRC = os.path.join(VERIF, "kani", "intprops")
KANI_DIR = KANI_SRC if not ALT else os.path.join(ALT, "kani", "intprops")
# (checked_mul over all 2^258 operand pairs takes ~150 s; it runs in parallel with the others)
KANI_QUICK = ["checked_add", "checked_sub", "add_op", "sub_op", "unary", "cmp", "mul_div_small", "checked_mul"]
KANI_THOROUGH = KANI_QUICK
REPLAY_BIN = os.path.join(BUILD_T, "kani-native", "debug", "replay")


def kani_native_build():
    if ALT:
        os.makedirs(KANI_DIR, exist_ok=True)
        if not os.path.islink(os.path.join(KANI_DIR, "src")):
            os.symlink(os.path.join(KANI_SRC, "src"), os.path.join(KANI_DIR, "src"))
        t = open(os.path.join(KANI_SRC, "Cargo.toml")).read().replace('"/repo/', '"' + REPO + '/')
        open(os.path.join(KANI_DIR, "Cargo.toml"), "w").write(t)
    lock = os.path.join(KANI_DIR, "Cargo.lock")
    if not os.path.exists(lock):
        shutil.copy("/repo/Cargo.lock", lock)
    p = subprocess.run(["cargo", "build", "--offline", "-q"], cwd=KANI_DIR, env=dict(ENV, CARGO_TARGET_DIR=os.path.join(BUILD_T, "kani-native")), stdout=subprocess.PIPE, stderr=subprocess.STDOUT, text=True)
    return p.returncode == 0, p.stdout[-2000:]


def kani_operands(harness, extra_args):
    """re-run one failing harness with concrete playback and extract the operand bytes"""
    cap_s = int(os.environ.get("KANI_PLAYBACK_SECS", "600"))
    cap_kb = int(os.environ.get("KANI_MAX_KB", str(24 * 1024 * 1024)))
    args = ["cargo", "kani", "--target-dir", os.path.join(BUILD_T, "kani"), "-Z", "stubbing", "-Z", "concrete-playback", "--concrete-playback=print", "--output-format", "terse", "--harness", harness] + extra_args
    p = subprocess.Popen(["bash", "-c", f"ulimit -v {cap_kb}; exec \"$@\"", "kani"] + args, cwd=KANI_DIR, env=ENV, stdout=subprocess.PIPE, stderr=subprocess.STDOUT, text=True, start_new_session=True)
    try:
        out, _ = p.communicate(timeout=cap_s)
    except subprocess.TimeoutExpired:
        try:
            os.killpg(p.pid, 9)
        except ProcessLookupError:
            pass
        p.communicate()
        return []
    p = subprocess.CompletedProcess(args, p.returncode, out, None)
    vecs = re.findall(r"^\s*vec!\[([0-9,\s]*)\],?\s*$", p.stdout, re.M)
    vals = []
    for v in vecs:
        b = [int(x) for x in v.replace(" ", "").split(",") if x != ""]
        vals.append(int.from_bytes(bytes(b), "little"))
    return vals


def run_kani(tier):
    """returns (results, violations, inconclusive_notes, wall)"""
    t0 = time.time()
    ok, out = kani_native_build()
    if not ok:
        return {}, [], ["native replay build failed: " + out], 0.0
    harnesses = KANI_QUICK if tier == "quick" else KANI_THOROUGH
    args = ["cargo", "kani", "--target-dir", os.path.join(BUILD_T, "kani"), "-Z", "stubbing", "-j", "8", "--output-format", "terse"]
    for h in harnesses:
        args += ["--harness", h]
    # own process group, capped in time and address space: a change to the code under test can make
    # a query explode (CBMC at 18 GB after 50 minutes was observed); that is inconclusive, never a pass
    cap_s = int(os.environ.get("KANI_MAX_SECS", "1500" if tier == "quick" else "7200"))
    cap_kb = int(os.environ.get("KANI_MAX_KB", str(24 * 1024 * 1024)))
    p = subprocess.Popen(["bash", "-c", f"ulimit -v {cap_kb}; exec \"$@\"", "kani"] + args, cwd=KANI_DIR, env=ENV, stdout=subprocess.PIPE, stderr=subprocess.STDOUT, text=True, start_new_session=True)
    try:
        text, _ = p.communicate(timeout=cap_s)
    except subprocess.TimeoutExpired:
        try:
            os.killpg(p.pid, 9)
        except ProcessLookupError:
            pass
        p.communicate()
        return {}, [], [f"kani did not finish within {cap_s} s (KANI_MAX_SECS); harnesses: {' '.join(harnesses)}"], time.time() - t0
    results = {}
    # terse output with -j interleaves; the final summary lists failures by name
    failed = set(re.findall(r"Verification failed for - proofs::(\w+)", text))
    m = re.search(r"Complete - (\d+) successfully verified harnesses, (\d+) failures, (\d+) total", text)
    if not m or int(m.group(3)) != len(harnesses):
        return {}, [], ["kani did not complete: " + text[-1500:]], time.time() - t0
    covers = re.findall(r"\*\* (\d+) of (\d+) cover properties satisfied", text)
    vac = [c for c in covers if c[0] != c[1]]
    for h in harnesses:
        results[h] = "failed" if h in failed else "verified"
    notes = []
    if vac and not failed:
        notes.append("a kani::cover! reachability witness was not satisfied (vacuous harness)")
    violations = []
    for h in sorted(failed):
        vals = kani_operands(h, [])
        ops = None
        if h == "mul_div_small" and len(vals) >= 4:
            ops = [vals[0], vals[2], vals[1], vals[3]]
        elif h == "unary" and len(vals) >= 2:
            ops = [vals[0], vals[1], 0, 0]
        elif len(vals) >= 4:
            ops = vals[:4]
        repro = None
        if ops is not None:
            r = subprocess.run([REPLAY_BIN, h, str(ops[0]), str(ops[1] & 1), str(ops[2]), str(ops[3] & 1)], stdout=subprocess.PIPE, text=True)
            if r.returncode == 1:
                repro = {"engine": "kani", "harness": h, "operands": [str(o) for o in ops], "native": r.stdout.strip()}
        if repro is None:
            # fall back to the native boundary sweep
            r = subprocess.run([REPLAY_BIN, "sweep"], stdout=subprocess.PIPE, text=True)
            hh = "mul_div" if h == "mul_div_small" else h
            line = next((l for l in r.stdout.splitlines() if l.startswith("FAIL " + hh + " ")), None)
            if line:
                mm = re.match(r"FAIL (\w+) a=\((\d+),(\d)\) b=\((\d+),(\d)\): (.*)", line)
                repro = {"engine": "kani", "harness": h, "operands": [mm.group(2), mm.group(3), mm.group(4), mm.group(5)], "native": "FAIL: " + mm.group(6)}
        if repro:
            violations.append(repro)
        else:
            notes.append(f"kani harness {h} failed but no counterexample reproduced natively")
    return results, violations, notes, time.time() - t0


def load_known():
    p = os.path.join(VERIF, "known_findings.json")
    if not os.path.exists(p):
        return []
    return json.load(open(p)).get("findings", [])


def match_known(known, prop, scenario, label, detail):
    for k in known:
        if k.get("status") != "known" or k.get("property") != prop:
            continue
        if re.search(k.get("label", ".*"), label) and re.search(k.get("detail", ".*"), detail or "") and re.search(k.get("scenario", ".*"), scenario):
            return k
    return None


def main():
    if len(sys.argv) < 3:
        log(__doc__)
        sys.exit(3)
    prop, tier = sys.argv[1], sys.argv[2]
    seed = int(os.environ.get("VERIF_SEED", "0") or 0)
    tmp = os.path.join(BUILD_T, "run", f"{prop}-{tier}-{os.getpid()}")
    os.makedirs(tmp, exist_ok=True)
    os.makedirs(os.path.join(OUT_ROOT, "evidence"), exist_ok=True)
    os.makedirs(os.path.join(OUT_ROOT, "replays"), exist_ok=True)
    t_start = time.time()
    build_s = build()

    if "--replay" in sys.argv:
        f = sys.argv[sys.argv.index("--replay") + 1]
        r = json.load(open(f))
        if r.get("engine") == "kani":
            ok, out = kani_native_build()
            o = r["operands"]
            pr = subprocess.run([REPLAY_BIN, r["harness"], o[0], o[1], o[2], o[3]], stdout=subprocess.PIPE, text=True)
            log(pr.stdout.strip())
            if pr.returncode == 1:
                log(f"VIOLATION property={prop} replay={f}")
                sys.exit(1)
            sys.exit(0)
        res, err = concrete(HX_REAL, r["scenario"], r["seed"], [{"id": 0, "assignment": r["assignment"]}], tmp, "replay")
        if res is None:
            log("INCONCLUSIVE: replay failed to run:", err)
            sys.exit(2)
        bad = [o for o in res[0]["obligations"] if not o["ok"] and o["label"] == r["label"]]
        log(json.dumps({"events": res[0]["events"], "violated": bad}, indent=1))
        if bad:
            log(f"VIOLATION property={prop} replay={f}")
            sys.exit(1)
        log("replay: obligation holds on the real build for this assignment")
        sys.exit(0)

    kani_future = None
    kani_pool = None
    if prop == "C19":
        kani_pool = cf.ThreadPoolExecutor(max_workers=1)
        kani_future = kani_pool.submit(run_kani, tier)
    names = scenarios(prop, tier)
    only = os.environ.get("SYMX_ONLY")  # development aid: restrict to scenarios matching a regex
    if only:
        names = [n for n in names if re.search(only, n)]
    if not names:
        log(f"INCONCLUSIVE: no scenarios for {prop}")
        sys.exit(2)
    results, failures = {}, []
    with cf.ThreadPoolExecutor(max_workers=JOBS) as ex:
        futs = [ex.submit(run_one, n, seed, tmp, tier) for n in names]
        for f in cf.as_completed(futs):
            name, j, out, dt = f.result()
            if j is None:
                failures.append((name, out))
                log(f"  {name}: FAILED TO RUN ({dt:.1f}s) {out[-300:]}")
            else:
                results[name] = j
                log(f"  {name}: paths={j['paths']} obligations={j['obligations']} proved={j['proved']}+{j['concrete_true']} refuted={j['refuted_n']} unknown={j['unknown_n']} skipped_branches={j['unknown_feasibility']} {dt:.1f}s")

    # ---------------- trace validation against the real build
    per = 6 if tier == "quick" else 40
    validated, mismatches, val_samples = 0, [], []

    def validate(name):
        j = results[name]
        recs = [p for p in j["path_records"] if p["ended"] == "ok"][:per]
        if not recs:
            return name, 0, []
        items = [{"id": p["id"], "assignment": p["assignment"]} for p in recs]
        res, err = concrete(HX_REAL, name, seed, items, tmp, "val")
        if res is None:
            return name, 0, [f"{name}: real build failed to run: {err[-300:]}"]
        mm = []
        for p, r in zip(recs, res):
            if p["events"] != r["events"]:
                diff = next(((a, b) for a, b in zip(p["events"] + ["<end>"], r["events"] + ["<end>"]) if a != b), None)
                mm.append(f"{name} path {p['id']}: symbolic run and real build disagree: {diff}")
        return name, len(recs), mm

    with cf.ThreadPoolExecutor(max_workers=JOBS) as ex:
        for name, n, mm in ex.map(validate, list(results)):
            validated += n
            mismatches += mm

    # ---------------- counterexamples: replay on the real build
    known = load_known()
    violations, known_hits, nonrepro = [], [], []
    for name, j in results.items():
        seen = set()
        for r in j["refuted"]:
            key = (r["label"], r["detail"])
            if key in seen:
                continue
            seen.add(key)
            res, err = concrete(HX_REAL, name, seed, [{"id": 0, "assignment": r["assignment"]}], tmp, "cex")
            repro = False
            if res is not None:
                repro = any((not o["ok"]) and o["label"] == r["label"] and o["detail"] == r["detail"] for o in res[0]["obligations"])
            entry = {"scenario": name, "seed": seed, "label": r["label"], "detail": r["detail"], "assignment": r["assignment"]}
            if not repro:
                nonrepro.append(entry)
                continue
            k = match_known(known, prop, name, r["label"], r["detail"])
            if k:
                known_hits.append((k, entry))
                continue
            h = hashlib.sha1((name + r["label"] + r["detail"]).encode()).hexdigest()[:10]
            path = os.path.join(OUT_ROOT, "replays", f"{prop}-{h}.json")
            json.dump(entry, open(path, "w"), indent=1)
            violations.append((entry, path))

    kani_results, kani_notes, kani_wall = {}, [], 0.0
    if kani_future is not None:
        kani_results, kani_viol, kani_notes, kani_wall = kani_future.result()
        for h, r in sorted(kani_results.items()):
            log(f"  kani {h}: {r}")
        for v in kani_viol:
            k = match_known(known, prop, "kani." + v["harness"], "kani/" + v["harness"], v["native"])
            if k:
                known_hits.append((k, v))
                continue
            path = os.path.join(OUT_ROOT, "replays", f"{prop}-kani-{v['harness']}.json")
            json.dump(v, open(path, "w"), indent=1)
            violations.append(({"scenario": "kani." + v["harness"], "label": "kani/" + v["harness"], "detail": v["native"], "assignment": v["operands"]}, path))

    # ---------------- evidence
    tot = lambda k: sum(j[k] for j in results.values())
    by_label = {}
    for j in results.values():
        for l, m in j["by_label"].items():
            d = by_label.setdefault(l, {})
            for k, v in m.items():
                d[k] = d.get(k, 0) + v
    functions = {}
    for j in results.values():
        for k, v in j["functions"].items():
            functions[k] = functions.get(k, 0) + v
    samples = []
    for name, j in list(results.items())[:6]:
        ok = [p for p in j["path_records"] if p["ended"] == "ok"]
        if ok:
            p = ok[len(ok) // 2]
            samples.append({"scenario": name, "variables_and_ranges": j["vars"], "witness": p["assignment"], "decisions_on_path": p["decisions"], "events": p["events"][:40]})
    exhaustive = all(not j["path_cap_hit"] and not j["time_cap_hit"] and j["unknown_feasibility"] == 0 and not j["aborted"] for j in results.values()) and not failures
    aborted = [f"{n}: {a}" for n, j in results.items() for a in j["aborted"]]
    ev = {
        "property_id": prop,
        "tier": tier,
        "seed": seed,
        "level": "model_checking",
        "wall_s": round(time.time() - t_start, 2),
        "violations": len(violations),
        "coverage": {
            "states": tot("paths"),
            "transitions": tot("decisions"),
            "traces_validated_against_impl": validated,
            "samples": samples or [{"note": "no completed path"}],
            "obligations": tot("obligations"),
            "discharged": tot("proved") + tot("concrete_true"),
            "undischarged": tot("unknown_n"),
            "refuted": tot("refuted_n"),
            "refuted_reproduced_unlisted": len(violations),
            "known_findings_hit": sorted({k["id"] for k, _ in known_hits}),
            "non_reproducing_models": len(nonrepro),
            "obligations_by_label": by_label,
            "queries": tot("queries"),
            "solver_time_s": round(tot("solver_ms") / 1000.0, 2),
            "build_time_s": round(build_s, 2),
            "solvers": ["z3 5.1.0 (z3-new -in, incremental, Int theory with div/mod)", "portfolio on unknown: cvc5 1.0, z3 4.8.12"],
            "functions_encoded": functions,
            "scenarios": {n: {"desc": j["desc"], "paths": j["paths"], "decisions": j["decisions"], "interval_decided": j["interval_decided"], "queries": j["queries"], "obligations": j["obligations"], "vars": j["vars"], "path_cap_hit": j["path_cap_hit"], "time_cap_hit": j["time_cap_hit"], "skipped_unknown_feasibility": j["unknown_feasibility"], "infeasible_paths": j["infeasible"]} for n, j in results.items()},
            "paths_skipped_unknown_feasibility": tot("unknown_feasibility"),
            "boundary_restart_items_dropped_by_budget": sum(j.get("restarts_skipped", 0) for j in results.values()),
            "scenario_failures": [n for n, _ in failures],
            "engine_aborts": aborted[:20],
            "shim_vs_real_mismatches": mismatches[:20],
            "exhaustive": exhaustive,
            "explanation": "states = explored symbolic paths (each a region of the input space with one control flow through the real contract code); transitions = solver-relevant branch decisions; every obligation is check-sat(path condition AND NOT claim) over all values of the symbolic variables in the stated ranges",
        },
        "assumptions": [
            "cw-multi-test 0.13.4 as the model of the chain (sub-messages, replies, rollback)",
            "the 14-operation symbolic Uint128 shim (validated on every run by re-executing explored paths on the real cosmwasm-std)",
            "z3/cvc5 unsat answers; integers encoded exactly (no wrapping arithmetic is used by the contracts)",
            "magnitudes in the top 2^32 of the u128 range are outside the claim (reserved handle zone)",
        ],
    }
    if kani_future is not None:
        cov = ev["coverage"]
        cov["kani_harnesses"] = kani_results
        cov["kani_wall_s"] = round(kani_wall, 1)
        cov["kani_notes"] = kani_notes
        cov["kani_checker_cmd"] = "cargo kani -Z stubbing -j 8 --harness <each> (kani 0.68.0 / CBMC 6.11.0 / cadical), crate /verif/kani/intprops, path dependency on /repo/packages/margined_common"
        cov["kani_bounds"] = "no loops in the harnesses: no unwinding bound; operands range over all 2^129 (magnitude, sign) representations incl. -0; mul_div_small: 8-bit magnitudes; stubs: <Uint128 as Display>::fmt, <Integer as Display>::fmt -> Ok(())"
        cov["obligations"] += len(kani_results)
        cov["discharged"] += sum(1 for r in kani_results.values() if r == "verified")
        ev["assumptions"].append("Kani/CBMC soundness for the loop-free harnesses; the two Display stubs only affect error-message construction")
    json.dump(ev, open(os.path.join(OUT_ROOT, "evidence", f"{prop}.json"), "w"), indent=1)
    shutil.rmtree(tmp, ignore_errors=True)

    # ---------------- verdict
    for k, e in known_hits:
        pass
    for kid in sorted({k["id"] for k, _ in known_hits}):
        k = next(k for k, _ in known_hits if k["id"] == kid)
        log(f"KNOWN-FINDING: property={prop} {k['what']}")
    if tot("unknown_n"):
        log(f"note: {tot('unknown_n')} obligation(s) undischarged (solver timeout), reported in the evidence")
    shown = {}
    for e, path in violations:
        shown[e["label"]] = shown.get(e["label"], 0) + 1
        if shown[e["label"]] > 3:
            continue
        log(f"counterexample: {e['scenario']} {e['label']} [{e['detail']}] {json.dumps(e['assignment'])}")
        log(f"VIOLATION property={prop} replay={path}")
    if violations:
        sys.exit(1)
    if kani_notes:
        for n in kani_notes:
            log("INCONCLUSIVE:", n)
        sys.exit(2)
    if failures or mismatches or nonrepro or any("abort:" in a or "panic" in a for a in aborted):
        for m in mismatches[:5]:
            log("INCONCLUSIVE:", m)
        for n, o in failures[:5]:
            log("INCONCLUSIVE: scenario failed to run:", n, o[-300:])
        for e in nonrepro[:5]:
            log("INCONCLUSIVE: model did not reproduce on the real build:", e["scenario"], e["label"], e["detail"])
        for a in aborted[:5]:
            log("INCONCLUSIVE: engine:", a)
        sys.exit(2)
    log(f"OK property={prop} tier={tier} paths={tot('paths')} obligations={tot('obligations')} discharged={tot('proved') + tot('concrete_true')} undischarged={tot('unknown_n')} validated_traces={validated} wall={time.time() - t_start:.1f}s")
    sys.exit(0)


if __name__ == "__main__":
    main()
